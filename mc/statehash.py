"""Canonical state of a mosaik world at a quiescent point of the virtual loop.

Generic object-graph walk (robust against renamed or added attributes): every
``SimRunner`` is walked through its ``__dict__``; containers are canonicalised
(dicts and sets sorted, heaps sorted), tasks are represented by the position of
their coroutine chain, futures/events by their state.  Absolute counters and
progress bars are dropped.  The walk is used for *deduplication only*; no
verdict reads it.  A wrong abstraction would hide behaviour silently, so every
merge is validated by the explorer (same state => same default continuation).
"""
from __future__ import annotations

import asyncio
import hashlib
import itertools
import types

_SKIP_ATTRS = {"tqdm", "_proxy", "world", "_world", "rt_start", "last_node"}
_ATOM = (type(None), bool, int, float, str, bytes)


def coro_pos(coro):
    out = []
    n = 0
    while coro is not None and n < 40:
        n += 1
        if isinstance(coro, types.CoroutineType):
            fr = coro.cr_frame
            out.append((coro.__qualname__, fr.f_lasti if fr else -1))
            coro = coro.cr_await
        elif isinstance(coro, types.GeneratorType):
            fr = coro.gi_frame
            out.append((coro.__qualname__, fr.f_lasti if fr else -1))
            coro = coro.gi_yieldfrom
        elif isinstance(coro, asyncio.Task):
            out.append(("TASK", coro.done()))
            if not coro.done():
                out.append(coro_pos(coro.get_coro()))
            break
        elif isinstance(coro, asyncio.Future):
            out.append(("FUT", coro.done()))
            break
        elif hasattr(coro, "cr_await") or hasattr(coro, "gi_yieldfrom"):
            out.append(("wrapped", type(coro).__name__))
            coro = getattr(coro, "cr_await", None) or getattr(coro, "gi_yieldfrom", None)
        else:
            out.append(("?", type(coro).__name__))
            break
    return tuple(out)


class Walker:
    def __init__(self):
        self.memo = {}

    def visit(self, o, depth=0):
        if isinstance(o, _ATOM):
            return o
        if depth > 12:
            return ("deep", type(o).__name__)
        t = type(o)
        tn = t.__name__
        if tn == "SimRunner" and depth > 0:
            return ("SIM", getattr(o, "sid", "?"))
        if isinstance(o, (list, tuple)):
            return (tn, tuple(self.visit(x, depth + 1) for x in o))
        if isinstance(o, dict):
            items = [(self.visit(k, depth + 1), self.visit(v, depth + 1)) for k, v in o.items()]
            try:
                items.sort(key=lambda kv: repr(kv[0]))
            except Exception:  # noqa: BLE001
                pass
            return ("dict", tuple(items))
        if isinstance(o, (set, frozenset)):
            return ("set", tuple(sorted((self.visit(x, depth + 1) for x in o), key=repr)))
        if isinstance(o, asyncio.Task):
            if o.done():
                return ("task-done", o.cancelled())
            return ("task", coro_pos(o.get_coro()))
        if isinstance(o, asyncio.Future):
            return ("fut", o.done(), o.cancelled())
        if isinstance(o, asyncio.Event):
            return ("event", o.is_set(), len(getattr(o, "_waiters", ())))
        if isinstance(o, itertools.count):
            return ("count",)
        if tn == "TimedInputBuffer" and hasattr(o, "input_queue"):
            try:
                q = sorted(o.input_queue, key=lambda e: (e[0], e[1]))
                return ("tib", tuple(self.visit((e[0],) + tuple(e[2:]), depth + 1) for e in q))
            except Exception:  # noqa: BLE001
                pass
        if tn == "Progress" and hasattr(o, "_futures"):
            try:
                # registration order is kept: it is the order in which the waiters wake up
                futs = [
                    (repr(self.visit(spec, depth + 1)), f.done(), f.cancelled())
                    for spec, f in o._futures if not f.cancelled()]
                return ("progress", self.visit(o.time, depth + 1), tuple(futs))
            except Exception:  # noqa: BLE001
                pass
        mod = getattr(t, "__module__", "") or ""
        if mod.startswith(("tqdm", "loguru", "networkx")):
            return ("skip", tn)
        if isinstance(o, (types.FunctionType, types.MethodType, types.BuiltinFunctionType, type)):
            return ("fn", getattr(o, "__qualname__", tn))
        oid = id(o)
        if oid in self.memo:
            return ("ref", self.memo[oid])
        self.memo[oid] = len(self.memo)
        d = getattr(o, "__dict__", None)
        if d is None:
            slots = getattr(t, "__slots__", None)
            if slots:
                d = {s: getattr(o, s, None) for s in slots}
        if d is None:
            return ("obj", tn, repr(o)[:80])
        items = []
        for k in sorted(d):
            if k in _SKIP_ATTRS:
                continue
            v = d[k]
            items.append((k, self.visit(v, depth + 1)))
        return ("obj", tn, tuple(items))


def awaited_futures(obj, out, depth=0):
    """ids of the plain futures a task is ultimately blocked on (through asyncio.gather
    children and asyncio.wait sets).  The future a task waits for is `task._fut_waiter` (the
    coroutine's cr_await is an opaque FutureIter for C futures)."""
    if obj is None or depth > 30:
        return
    if isinstance(obj, asyncio.Task):
        if obj.done():
            return
        # asyncio.wait keeps its set of awaitables in the _wait frame
        co = obj.get_coro()
        n = 0
        while co is not None and n < 30:
            n += 1
            fr = getattr(co, "cr_frame", None)
            if fr is not None and getattr(co, "__qualname__", "") == "_wait":
                for f in fr.f_locals.get("fs", ()) or ():
                    awaited_futures(f, out, depth + 1)
            co = getattr(co, "cr_await", None)
            if not isinstance(co, types.CoroutineType):
                break
        awaited_futures(getattr(obj, "_fut_waiter", None), out, depth + 1)
        return
    if isinstance(obj, asyncio.Future):
        ch = getattr(obj, "_children", None)
        if ch:
            for c in ch:
                awaited_futures(c, out, depth + 1)
        elif not obj.done():
            out.append(id(obj))


def waiter_map(world):
    """who waits at which position of whose Progress: the wake-up order of equal waiters"""
    pos = {}
    for sid, sim in world.sims.items():
        futs = getattr(getattr(sim, "progress", None), "_futures", None) or []
        for i, (spec, f) in enumerate(futs):
            pos[id(f)] = (sid, i)
    out = []
    for sid in sorted(world.sims):
        t = getattr(world.sims[sid], "task", None)
        ids = []
        if t is not None:
            try:
                awaited_futures(t, ids)
            except Exception:  # noqa: BLE001
                ids = []
        out.append((sid, tuple(sorted(pos[i] for i in ids if i in pos))))
    return tuple(out)


def canon(run, extra=()):
    """Hash of the canonical state of `run` (a harness.Run) at quiescence."""
    w = run.world
    wk = Walker()
    parts = []
    for sid in sorted(w.sims):
        parts.append((sid, wk.visit(w.sims[sid])))
    stubs = tuple(sorted((sid, s.k, s.cur, s.finalized) for sid, s in run.stubs.items()))
    gates = tuple(repr(g) for g in run.loop.live())
    chans = []
    for (sim, (r_m, w_m), (r_s, w_s), ch_m) in run.channels:
        chans.append((bytes(r_m._buffer), r_m._eof, bytes(r_s._buffer), r_s._eof,
                      w_m.closed, w_s.closed,
                      tuple(sorted(ch_m._outgoing_request_futures)),
                      ch_m._incoming_requests.qsize()))
    rtasks = tuple(("done",) if t.done() else coro_pos(t.get_coro()) for t in run.remote_tasks)
    timers = tuple(sorted(round(h._when - run.loop.time(), 9)
                          for h in run.loop._scheduled if not h._cancelled))
    try:
        extra = (extra, waiter_map(w))
    except Exception:  # noqa: BLE001
        pass
    blob = repr((parts, stubs, gates, tuple(chans), rtasks, timers,
                 getattr(w, "sim_progress", None) if False else None, extra))
    return hashlib.sha1(blob.encode()).hexdigest()
