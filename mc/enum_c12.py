"""C12 -- attribute classification from model descriptions.

Every model description whose keys attrs / trigger / non-trigger / persistent /
non-persistent are each absent or any subset of a small universe U, x any_inputs x the
three simulator types, is sent through world.start() of a stub that returns it.  The
classification is observed through the public surface (Entity.triggered_by /
Entity.is_persistent and which connect() calls are accepted) for every element of
U+ = U + {one fresh witness name} and compared with a reference that works on plain
finite subsets of U+ (a co-finite set is represented by its members in U+, which decides
every membership query).  Plus: every binary operator of OutSet/frozenset on every pair of
finite/co-finite sets over U.
"""
from __future__ import annotations

import itertools
import multiprocessing as mp
import os
import time
import warnings

from . import env, evidence, findings
from .harness import Run

W = "w_"      # the fresh witness: stands for every name outside U
TYPES = ["time-based", "event-based", "hybrid"]
KEYS = ["attrs", "trigger", "non-trigger", "persistent", "non-persistent"]


def subsets(U):
    for r in range(len(U) + 1):
        for c in itertools.combinations(U, r):
            yield frozenset(c)


# ---- reference on finite subsets of U+ ------------------------------------------------------
class Reject(Exception):
    pass


def triple(union, a, b):
    if sum(x is None for x in (union, a, b)) >= 2:
        raise Reject("under-specified")
    if union is None:
        union = a | b
    if a is None:
        a = union - b
    if b is None:
        b = union - a
    if a & b:
        raise Reject("not disjoint")
    if (a | b) != union:
        raise Reject("not a partition")
    return a, b


def reference(desc, typ, Uplus):
    g = lambda k: None if k not in desc else frozenset(desc[k])  # noqa: E731
    attrs = g("attrs")
    inputs = frozenset(Uplus) if desc.get("any_inputs") else attrs
    nt, tr = g("non-trigger"), g("trigger")
    if typ == "time-based":
        tr = tr if tr is not None else frozenset()
    elif typ == "event-based":
        nt = nt if nt is not None else frozenset()
    else:
        if nt is None and "trigger" not in desc:
            nt = inputs
    nt, tr = triple(inputs, nt, tr)
    if typ == "time-based" and tr:
        raise Reject("time-based with trigger")
    if typ == "event-based" and nt:
        raise Reject("event-based with non-trigger")
    pe, npe = g("persistent"), g("non-persistent")
    if typ == "event-based":
        pe = pe if pe is not None else frozenset()
    else:
        npe = npe if npe is not None else frozenset()
    pe, npe = triple(attrs, pe, npe)
    if typ == "time-based" and npe:
        raise Reject("time-based with non-persistent")
    if typ == "event-based" and pe:
        raise Reject("event-based with persistent")
    return nt, tr, pe, npe


# ---- observation through the public surface ---------------------------------------------------
class Probe:
    def __init__(self):
        scen = dict(until=1, sims=[dict(sid="P", type="time-based"),
                                   dict(sid="Q", type="time-based", any_inputs=True)], conns=[])
        self.run = Run(scen, dict(gates=()), None)
        from . import stubs
        stubs.CTX = self.run
        self.run.build()
        self.world = self.run.world
        self.world.sim_config["Desc"] = {"python": "mc.stubs:DescSim"}
        self.n = 0

    def classify(self, desc, typ, Uplus, child=False):
        from mosaik.exceptions import ScenarioError
        w = self.world
        self.n += 1
        with warnings.catch_warnings():
            warnings.simplefilter("ignore")
            try:
                fac = w.start("Desc", sim_id=f"d{self.n}", desc=desc, type=typ, child=child)
            except (ValueError, ScenarioError) as e:
                return ("reject", type(e).__name__ + ": " + str(e)[:120])
            ent = fac.M()
            if child:
                ent = ent.children[0]
            P, Q = self.run.ents["P"], self.run.ents["Q"]
            nt, tr, pe, npe = set(), set(), set(), set()
            for x in Uplus:
                try:
                    w.connect(P, ent, ("po", x))
                    is_in = True
                except ScenarioError:
                    is_in = False
                try:
                    w.connect(P, ent, ("po", x), time_shifted=True)
                    no_init_needed = True
                except ScenarioError:
                    no_init_needed = False
                trig = bool(ent.triggered_by(x))
                if is_in:
                    (tr if trig else nt).add(x)
                    if trig != no_init_needed:
                        return ("inconsistent", f"{x}: triggered_by={trig} but time-shifted "
                                f"connection without initial data accepted={no_init_needed}")
                elif trig or no_init_needed:
                    return ("inconsistent", f"{x}: not connectable as input but triggered_by={trig}")
                try:
                    w.connect(ent, Q, (x, "any"))
                    is_out = True
                except ScenarioError:
                    is_out = False
                pers = bool(ent.is_persistent(x))
                if is_out:
                    (pe if pers else npe).add(x)
                elif pers:
                    return ("inconsistent", f"{x}: not connectable as output but is_persistent")
        return ("ok", frozenset(nt), frozenset(tr), frozenset(pe), frozenset(npe))

    def close(self):
        from . import stubs
        try:
            self.world.shutdown()
        except Exception:  # noqa: BLE001
            pass
        stubs.CTX = None


def descriptions(U):
    subs = [None] + list(subsets(U))
    for combo in itertools.product(subs, repeat=len(KEYS)):
        for ai in (False, True):
            d = {k: sorted(v) for k, v in zip(KEYS, combo) if v is not None}
            if ai:
                d["any_inputs"] = True
            yield d


def judge(probe, desc, typ, Uplus, child=False):
    try:
        ref = reference(desc, typ, Uplus)
    except Reject as e:
        ref = ("reject", str(e))
    try:
        obs = probe.classify(desc, typ, Uplus, child)
    except Exception as e:  # noqa: BLE001
        if not child:
            raise
        # start() accepted the simulator, the error only comes out of create()
        obs = ("ok-then-create-failed", type(e).__name__ + ": " + str(e)[:120])
    case = dict(desc=desc, type=typ, universe=list(Uplus))
    if child:
        case["child"] = True
    if obs[0] == "ok-then-create-failed":
        return [dict(prop="C12", kind="bad-description-accepted" if ref[0] == "reject" else "good-description-rejected",
                     cls=None, msg=f"the description of a non-public (child) model passed start(); "
                                   f"creating the entity then failed with {obs[1]}: {case}", case=case)]
    if obs[0] == "inconsistent":
        return [dict(prop="C12", kind="inconsistent-classification", cls=None,
                     msg=f"{obs[1]}: {case}", case=case)]
    if ref[0] == "reject":
        if obs[0] != "reject":
            return [dict(prop="C12", kind="bad-description-accepted", cls=None,
                         msg=f"reference rejects ({ref[1]}) but start() classified "
                             f"{[sorted(s) for s in obs[1:]]}: {case}", case=case)]
        return []
    if obs[0] == "reject":
        return [dict(prop="C12", kind="good-description-rejected", cls=None,
                     msg=f"reference classifies {[sorted(s) for s in ref]} but start() raised "
                         f"{obs[1]}: {case}", case=case)]
    if tuple(obs[1:]) != tuple(ref):
        return [dict(prop="C12", kind="wrong-classification", cls=None,
                     msg=f"non-trigger/trigger/persistent/non-persistent = "
                         f"{[sorted(s) for s in obs[1:]]}, reference {[sorted(s) for s in ref]}: {case}",
                     case=case)]
    return []


def _work(args):
    U, chunk = args[:2]
    child = len(args) > 2 and args[2]
    Uplus = list(U) + [W]
    probe = Probe()
    out = []
    n = rej = 0
    try:
        for desc, typ in chunk:
            if probe.n >= 400:          # keep the probing world small
                probe.close()
                probe = Probe()
            v = judge(probe, desc, typ, Uplus, child)
            n += 1
            out.extend(v)
            try:
                reference(desc, typ, Uplus)
            except Reject:
                rej += 1
    except Exception as e:  # noqa: BLE001
        import traceback
        return dict(error=repr(e)[:200] + traceback.format_exc()[-600:])
    finally:
        probe.close()
    return dict(n=n, rejected=rej, viol=out)


# ---- set algebra ------------------------------------------------------------------------------
def check_set_algebra(U):
    from mosaik.in_or_out_set import OutSet
    Uplus = list(U) + [W]
    sets = []
    for s in subsets(U):
        sets.append((frozenset(s), frozenset(s)))                       # finite
        sets.append((OutSet(s), frozenset(x for x in Uplus if x not in s)))   # co-finite
    viol = []
    n = 0

    def members(x):
        return frozenset(e for e in Uplus if e in x)

    import operator
    ops = [("|", operator.or_, frozenset.__or__), ("&", operator.and_, frozenset.__and__),
           ("-", operator.sub, frozenset.__sub__)]
    for (a, ra), (b, rb) in itertools.product(sets, repeat=2):
        for name, op, rop in ops:
            n += 1
            try:
                r = op(a, b)
                got = members(r)
                infinite = isinstance(r, OutSet)
            except Exception as e:  # noqa: BLE001
                viol.append(dict(prop="C12", kind="set-operator-raises", cls=None,
                                 msg=f"{_s(a)} {name} {_s(b)} raised {e!r}"))
                continue
            exp = rop(ra, rb)
            if got != exp or infinite != (W in exp):
                viol.append(dict(prop="C12", kind="set-operator-wrong", cls=None,
                                 msg=f"{_s(a)} {name} {_s(b)} = {_s(r)} has members {sorted(got)} "
                                     f"in U+, reference {sorted(exp)}"))
        n += 1
        eq = (a == b)
        if bool(eq) != (ra == rb):
            viol.append(dict(prop="C12", kind="set-equality-wrong", cls=None,
                             msg=f"{_s(a)} == {_s(b)} is {eq}, reference {ra == rb}"))
    return n, viol


def _s(x):
    from mosaik.in_or_out_set import OutSet
    if isinstance(x, OutSet):
        return "All-" + str(sorted(x._set)) if hasattr(x, "_set") else str(x)
    return str(sorted(x))


def replay(doc):
    c = doc.get("case")
    if not c:
        n, v = check_set_algebra(["a", "b", "c"])
        for x in v:
            print("REPRODUCED", x["kind"], x["msg"])
        return 1 if v else 0
    probe = Probe()
    try:
        v = judge(probe, c["desc"], c["type"], c["universe"], bool(c.get("child")))
    finally:
        probe.close()
    for x in v:
        print("REPRODUCED", x["kind"], x["msg"][:400])
    return 1 if v else 0


def check(prop, tier):
    t0 = time.time()
    U = ["a", "b", "c"]
    cases = [(d, t) for d in descriptions(U) for t in TYPES]
    chunks = [(U, cases[i:i + 300]) for i in range(0, len(cases), 300)]
    # the same descriptions as a NON-PUBLIC model that is the type of a child entity
    U2 = U if tier == "thorough" else ["a", "b"]
    cases2 = [(d, t) for d in descriptions(U2) for t in TYPES]
    chunks += [(U2, cases2[i:i + 300], True) for i in range(0, len(cases2), 300)]
    rep = findings.Reporter("C12")
    kinds = {}
    total = rejected = 0
    nproc = int(os.environ.get("VERIF_PROCS", "16"))
    with mp.get_context("fork").Pool(nproc) as pool:
        for res in pool.imap_unordered(_work, chunks, chunksize=1):
            if res.get("error"):
                print("MACHINERY-ERROR", res["error"])
                return 2
            total += res["n"]
            rejected += res["rejected"]
            for v in res["viol"]:
                kinds[v["kind"]] = kinds.get(v["kind"], 0) + 1
                if kinds[v["kind"]] <= 5:
                    rep.report(v, dict(kind="call", module="mc.enum_c12", case=v["case"]))
    nset, vs = check_set_algebra(["a", "b", "c"])
    for v in vs:
        kinds[v["kind"]] = kinds.get(v["kind"], 0) + 1
        if kinds[v["kind"]] <= 5:
            rep.report(v, dict(kind="call", module="mc.enum_c12"))
    rc = rep.finish()
    cov = dict(
        states=total + nset, transitions=total * (3 * (len(U) + 1) + 1) + nset,
        traces_validated_against_impl=total + nset, evaluations=total + nset,
        distinct_nontrivial=total - rejected,
        rule="one evaluation = world.start() of a stub returning one model description, then "
             "probing every element of U+ through triggered_by / is_persistent / connect(); or one "
             "set operator application; non-trivial = description accepted by the reference",
        samples=[dict(desc={"attrs": ["a", "b"], "trigger": ["a"]}, type="hybrid",
                      reference=[sorted(s) for s in reference({"attrs": ["a", "b"], "trigger": ["a"]},
                                                              "hybrid", U + [W])])],
        exhaustive=True, universe=U, descriptions=total, rejected_by_reference=rejected,
        set_operator_applications=nset, violation_kinds=kinds,
    )
    evidence.write("C12", tier, "model_checking", cov,
                   ["a single fresh name stands for every attribute outside U (sound for "
                    "membership queries on finite/co-finite sets)"],
                   time.time() - t0, len(rep.violations))
    print(f"C12 {tier}: descriptions={total} rejected={rejected} set-ops={nset} "
          f"violations={len(rep.violations)} wall={time.time() - t0:.1f}s")
    return rc
