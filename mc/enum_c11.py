"""C11 -- connection validation and group scoping.

Part 1: bounded-exhaustive enumeration of connect() calls:
  src type x dst type x src group x dst group (root, g, g2, h in g, h2 in g) x src attr x
  dst attr (every real attribute and one unknown name) x time_shifted in {0,1,2} x weak x
  initial_data present/absent (+ any_inputs destinations, + two-pair calls),
  against a reference predicate for "must raise ScenarioError"; a rejected call must leave
  every data-flow table of both simulators and the entity graph unchanged.
Part 2: group scoping made observable: a producer performing two sub-steps (weak
  self-loop) feeds a consumer placed everywhere in the group tree; all schedules are
  explored and judged by the C01/C02/C03 monitors against the reference `arrive`.
"""
from __future__ import annotations

import itertools
import multiprocessing as mp
import os
import time
import warnings

from . import env, evidence, findings, statehash
from .harness import Run

GROUPS = {"g": None, "g2": None, "h": "g", "h2": "g"}
PLACES = [None, "g", "g2", "h", "h2"]
TYPES = {"T": "time-based", "E": "event-based", "H": "hybrid"}
ATTRS = {"T": ["mi", "po"], "E": ["ti", "ti2", "eo"], "H": ["mi", "ti", "ti2", "po", "eo"]}
UNKNOWN = "zz"


def gpath(g):
    p = []
    while True:
        p.append(g)
        if g is None:
            break
        g = GROUPS[g]
    return p[::-1]


def common_depth(a, b):
    n = 0
    for x, y in zip(gpath(a), gpath(b)):
        if x != y:
            break
        n += 1
    return n


def is_trigger_input(t, attr, any_inputs):
    if any_inputs == "child":      # the destination is the child entity of model K (roles swapped)
        return attr == "mi"
    if t == "T":
        return False
    if t == "E":
        return True
    return attr in ("ti", "ti2")


OUT = {"T": ["po"], "E": ["eo"], "H": ["po", "eo"]}
IN = {"T": ["mi"], "E": ["ti", "ti2"], "H": ["mi", "ti", "ti2"]}


def must_raise(st, dt, sg, dg, sa, da, shift, weak, init, any_inputs):
    """any_inputs: False | True (destination model) | "child" | "split" (both models described by
    role lists without `attrs`, so that inputs and outputs are different sets) | "src_any" (the
    SOURCE model has any_inputs: its outputs are still only its attrs)"""
    reasons = []
    outs = OUT[st] if any_inputs == "split" else ATTRS[st]
    ins = IN[dt] if any_inputs == "split" else ATTRS[dt]
    if sa not in outs:
        reasons.append("src-attr")
    if da not in ins and any_inputs is not True:
        reasons.append("dst-attr")
    if (shift or weak) and not init:
        valid_in = da in ins or any_inputs is True
        if valid_in and not is_trigger_input(dt, da, any_inputs):
            reasons.append("needs-initial-data")
    if weak and common_depth(sg, dg) < 2:
        reasons.append("weak-no-shared-group")
    return reasons


def snapshot(world):
    wk = statehash.Walker()
    parts = [(sid, wk.visit(world.sims[sid])) for sid in sorted(world.sims)]
    eg = world.entity_graph
    return repr((parts, sorted(map(sorted, eg.edges)), sorted(eg.nodes)))


def make_world(st, dt, sg, dg, any_inputs, cache=True):
    scen = dict(until=1, groups=GROUPS,
                sims=[dict(sid="S", type=TYPES[st], group=sg, any_inputs=(any_inputs == "src_any"),
                           split=(any_inputs == "split")),
                      dict(sid="D", type=TYPES[dt], group=dg, any_inputs=(any_inputs is True),
                           child=(any_inputs == "child"), split=(any_inputs == "split"))],
                conns=[])
    r = Run(scen, dict(gates=(), cache=cache), None)
    from . import stubs
    stubs.CTX = r
    env.LOG_SINK.append(r.logs)
    try:
        r.build()
    finally:
        env.LOG_SINK.pop()
    return r


def close_world(r):
    from . import stubs
    try:
        r.world.shutdown()
    except Exception:  # noqa: BLE001
        pass
    stubs.CTX = None


def do_connect(r, pairs, shift, weak, init):
    from . import stubs
    from mosaik.exceptions import ScenarioError
    kw = {}
    if shift:
        kw["time_shifted"] = shift if shift != 1 else True
    if weak:
        kw["weak"] = True
    if init:
        # "none": the initial value None is a value like any other (the destination sees None in
        # its first step), not "no initial data"
        kw["initial_data"] = {sa: (None if init == "none" else "init") for sa, da in pairs}
    stubs.CTX = r
    env.LOG_SINK.append(r.logs)
    try:
        with warnings.catch_warnings():
            warnings.simplefilter("ignore")
            dst = r.ents["D"]
            if r.scen["sims"][1].get("child"):
                dst = dst.children[0]
            r.world.connect(r.ents["S"], dst, *pairs, **kw)
        return None
    except ScenarioError as e:
        return ("ScenarioError", str(e)[:200])
    except Exception as e:  # noqa: BLE001
        return (type(e).__name__, str(e)[:200])
    finally:
        env.LOG_SINK.pop()


def judge_call(st, dt, sg, dg, any_inputs, cache, pairs, shift, weak, init, r=None):
    """returns (violations, world-or-None-if-consumed, raised?)"""
    own = r is None
    if r is None:
        try:
            r = make_world(st, dt, sg, dg, any_inputs, cache)
        except Exception as e:  # noqa: BLE001
            return [dict(prop="C11", kind="cannot-start-valid-simulators", cls=None,
                         msg=f"{type(e).__name__}: {str(e)[:200]}")], False, False
    before = snapshot(r.world)
    res = do_connect(r, pairs, shift, weak, init)
    after = snapshot(r.world)
    out = []
    case = dict(st=st, dt=dt, sg=sg, dg=dg, any_inputs=any_inputs, cache=cache,
                pairs=[list(p) for p in pairs], shift=shift, weak=weak, init=init)

    def add(kind, msg):
        out.append(dict(prop="C11", kind=kind, cls=None, msg=f"{msg}: {case}", case=case))
    reasons = [must_raise(st, dt, sg, dg, sa, da, shift, weak, init, any_inputs) for sa, da in pairs]
    bad = any(reasons)
    if bad:
        if res is None:
            add("invalid-connection-accepted", f"connect() accepted although {reasons}")
        elif res[0] != "ScenarioError":
            add("wrong-exception", f"connect() raised {res} instead of ScenarioError ({reasons})")
        if res is not None and all(reasons) and before != after:
            add("rejected-pair-left-dataflow", "world changed by a rejected connect()")
        if res is not None and not all(reasons) and len(pairs) > 1:
            # the good pairs may stay; the rejected one must leave nothing behind:
            # compare with a fresh world where only the good pairs were connected
            r2 = make_world(st, dt, sg, dg, any_inputs, cache)
            good = [p for p, rs in zip(pairs, reasons) if not rs]
            do_connect(r2, good, shift, weak, init)
            if snapshot(r2.world) != after:
                add("rejected-pair-left-dataflow",
                    "world differs from one where only the valid pairs were connected")
            close_world(r2)
    else:
        if res is not None:
            add("valid-connection-rejected", f"connect() raised {res}")
    consumed = before != after
    if own:
        close_world(r)
    return out, consumed, res is not None


def _work(combo):
    st, dt, sg, dg, any_inputs, cache = combo
    out = []
    n = raised = 0
    r = None
    sattrs = ATTRS[st] + [UNKNOWN]
    dattrs = ATTRS[dt] + [UNKNOWN]
    calls = []
    for sa in sattrs:
        for da in dattrs:
            for shift in (0, 1, 2):
                for weak in (False, True):
                    for init in (False, True, "none"):
                        if init == "none" and not (shift or weak):
                            continue
                        calls.append(([(sa, da)], shift, weak, init))
    # two-pair calls: one valid pair plus each possible second pair (plain and shifted)
    good = (ATTRS[st][-1], ATTRS[dt][0])
    for sa in sattrs:
        for da in dattrs:
            if (sa, da) != good:
                for shift in (0, 1):
                    calls.append(([good, (sa, da)], shift, False, False))
    # one source attribute fanned out to two destination attributes in ONE call, with initial data
    if len(ATTRS[dt]) >= 2 and any_inputs is not True:
        for sa in ATTRS[st]:
            for da1, da2 in itertools.permutations(ATTRS[dt], 2):
                for shift, weak in ((1, False), (2, False), (0, True)):
                    calls.append(([(sa, da1), (sa, da2)], shift, weak, True))
    for pairs, shift, weak, init in calls:
        if r is None:
            try:
                r = make_world(st, dt, sg, dg, any_inputs, cache)
            except Exception as e:  # noqa: BLE001
                case = dict(st=st, dt=dt, sg=sg, dg=dg, any_inputs=any_inputs, cache=cache,
                            pairs=[], shift=0, weak=False, init=False)
                return dict(n=1, raised=0, viol=[dict(
                    prop="C11", kind="cannot-start-valid-simulators", cls=None, case=case,
                    msg=f"starting the two (valid) simulators failed with {type(e).__name__}: "
                        f"{str(e)[:200]}: {case}")])
        try:
            v, consumed, did_raise = judge_call(st, dt, sg, dg, any_inputs, cache, pairs, shift,
                                                weak, init, r)
        except Exception as e:  # noqa: BLE001
            import traceback
            return dict(error=repr(e)[:200] + traceback.format_exc()[-500:])
        n += 1
        raised += did_raise
        out.extend(v)
        if consumed:
            close_world(r)
            r = None
    if r is not None:
        close_world(r)
    return dict(n=n, raised=raised, viol=out)


# ---- part 2: group scoping observable in a run ---------------------------------------------
def scoping_scenarios():
    out = []
    for sg in PLACES[1:]:
        for dg in PLACES:
            for kind in ("plain", "shift", "weak"):
                if kind == "weak" and common_depth(sg, dg) < 2:
                    continue
                c = dict(src="S", dst="D", sattr="eo", dattr="ti")
                if kind == "shift":
                    c["shift"] = 1
                if kind == "weak":
                    c["weak"] = True
                scen = dict(until=2, max_loop=4, groups=GROUPS,
                            sims=[dict(sid="S", type="event-based", group=sg, init_event=0,
                                       emit=[0, 0], next=[None, None, 1]),
                                  dict(sid="D", type="event-based", group=dg, emit_default=None),
                                  dict(sid="X", type="time-based", step=1)],
                            conns=[dict(src="S", dst="S", sattr="eo", dattr="ti", weak=True), c])
                out.append((f"scope_{sg}_{dg}_{kind}", scen))
    return out


def _scope_work(job):
    from . import explorer
    name, scen, cfg = job
    try:
        r = explorer.explore(scen, cfg, budget=1, max_exec=3000)
    except Exception as e:  # noqa: BLE001
        return dict(error=repr(e)[:300], name=name)
    r["name"] = name
    r["cfg"] = cfg
    r["scen"] = scen
    return r


# ---- part 3: `with world.group():` blocks as the user writes them ------------------------------
# The harness places simulators by setting `world.current_group` directly; what the *block* does
# when it is nested, left normally or left by an exception that the caller handles (e.g. the
# ScenarioError of a rejected connect()) is enumerated here: every well-nested program over
#   s = start a simulator, ( = enter a group block, ) = leave it normally,
#   ! = leave it by an exception raised inside the block and caught around it
# up to a length bound.  Reference: a simulator belongs to exactly the blocks that textually
# enclose its start() call.  Observable: a weak connection between two simulators is accepted
# iff they share a (non-root) group.
class _Boom(Exception):
    pass


def group_programs(max_len, max_sims=4, max_depth=3):
    out = []

    def rec(prog, depth, nsims):
        if depth == 0 and nsims >= 2:
            out.append(prog)
        if len(prog) >= max_len:
            return
        if len(prog) + depth < max_len:      # room left to close everything
            if nsims < max_sims:
                rec(prog + "s", depth, nsims + 1)
            if depth < max_depth and len(prog) + depth + 2 <= max_len:
                rec(prog + "(", depth + 1, nsims)
        if depth > 0:
            rec(prog + ")", depth - 1, nsims)
            rec(prog + "!", depth - 1, nsims)
    rec("", 0, 0)
    return [p for p in out if "(" in p]


def run_group_program(prog, exc_kind="scenario"):
    """execute the program with real nested `with world.group()` statements; returns violations"""
    import mosaik
    from mosaik.exceptions import ScenarioError
    from . import stubs
    from .vloop import VLoop
    scen = dict(until=1, sims=[], conns=[])
    r = Run(scen, dict(gates=()), None)
    stubs.CTX = r
    env.LOG_SINK.append(r.logs)
    viol = []
    try:
        import asyncio
        asyncio.set_event_loop(r.loop)
        w = mosaik.World({"Stub": {"python": "mc.stubs:StubSim"}}, skip_greetings=True,
                         asyncio_loop=r.loop)
        r.world = w
        placed = []          # (sid, tuple of enclosing block ids, entity)
        counter = [0]
        pos = [0]

        def block(stack):
            while pos[0] < len(prog):
                op = prog[pos[0]]
                pos[0] += 1
                if op == "s":
                    sid = "S%d" % len(placed)
                    with warnings.catch_warnings():
                        warnings.simplefilter("ignore")
                        ent = w.start("Stub", sim_id=sid, spec=dict(sid=sid, type="event-based")).M()
                    placed.append((sid, tuple(stack), ent))
                elif op == "(":
                    counter[0] += 1
                    bid = counter[0]
                    try:
                        with w.group():
                            how = block(stack + [bid])
                            if how == "!":
                                if exc_kind == "scenario" and len(placed) >= 2:
                                    # a rejected connect() that the caller handles
                                    w.connect(placed[0][2], placed[1][2], ("zz", "ti"))
                                    raise AssertionError("connect() with an unknown attribute accepted")
                                raise _Boom()
                    except (_Boom, ScenarioError):
                        pass
                else:
                    return op
            return None
        block([])
        for (a, pa, ea), (b, pb, eb) in itertools.permutations(placed, 2):
            share = bool(pa and pb and pa[0] == pb[0])
            try:
                with warnings.catch_warnings():
                    warnings.simplefilter("ignore")
                    w.connect(ea, eb, ("eo", "ti"), weak=True)
                res = None
            except ScenarioError:
                res = "ScenarioError"
            except Exception as e:  # noqa: BLE001
                res = type(e).__name__
            if share and res is not None:
                viol.append(f"weak connection {a}->{b} rejected ({res}) although both were started "
                            f"inside the same outermost group block (blocks {pa} / {pb})")
            if not share and res != "ScenarioError":
                viol.append(f"weak connection {a}->{b} {'accepted' if res is None else 'raised ' + res}"
                            f" although the simulators share no group (blocks {pa} / {pb})")
        try:
            w.shutdown()
        except Exception:  # noqa: BLE001
            pass
    finally:
        env.LOG_SINK.pop()
        stubs.CTX = None
    case = dict(group_program=prog, exc_kind=exc_kind)
    return [dict(prop="C11", kind="group-block-scoping", cls=None, case=case,
                 msg=f"program {prog!r} (s=start, (=enter group block, )=leave, !=leave by a "
                     f"handled {'ScenarioError of a rejected connect()' if exc_kind == 'scenario' else 'exception'}): {v}")
            for v in viol[:2]]


def _group_work(job):
    prog, kind = job
    try:
        return dict(viol=run_group_program(prog, kind), n=1)
    except Exception as e:  # noqa: BLE001
        import traceback
        return dict(error=f"{prog!r}/{kind}: " + repr(e)[:200] + traceback.format_exc()[-500:])


def replay(doc):
    if doc.get("case") and doc["case"].get("group_program"):
        v = run_group_program(doc["case"]["group_program"], doc["case"].get("exc_kind", "scenario"))
        for x in v:
            print("REPRODUCED", x["kind"], x["msg"][:300])
        return 1 if v else 0
    if doc.get("case"):
        c = doc["case"]
        v, _, _ = judge_call(c["st"], c["dt"], c["sg"], c["dg"], c["any_inputs"], c["cache"],
                             [tuple(p) for p in c["pairs"]], c["shift"], c["weak"], c["init"])
        for x in v:
            print("REPRODUCED", x["kind"], x["msg"][:300])
        return 1 if v else 0
    return 2


def check(prop, tier):
    t0 = time.time()
    combos = [(st, dt, sg, dg, ai, cache)
              for st in "TEH" for dt in "TEH" for sg in PLACES for dg in PLACES
              for ai in (False, True) for cache in ((True, False) if tier == "thorough" else (True,))]
    # destination = child entity of another model (hierarchical entities), hybrid destinations
    combos += [(st, "H", sg, dg, "child", True) for st in "TEH" for sg in (None, "g") for dg in (None, "g", "g2")]
    # models whose inputs and outputs are different sets; a source model with any_inputs
    combos += [(st, dt, sg, dg, ai, True) for st in "TEH" for dt in "TEH" for sg in (None, "g")
               for dg in (None, "g", "h") for ai in ("split", "src_any")]
    if tier == "quick":
        # cache=False on the combos where it changes the code path (persistent source)
        combos += [(st, dt, sg, dg, False, False) for st in "TH" for dt in "TEH"
                   for sg in (None, "g") for dg in (None, "g", "g2")]
    rep = findings.Reporter("C11")
    nproc = int(os.environ.get("VERIF_PROCS", "16"))
    total = raised = 0
    kinds = {}
    with mp.get_context("fork").Pool(nproc) as pool:
        for res in pool.imap_unordered(_work, combos, chunksize=4):
            if res.get("error"):
                print("MACHINERY-ERROR", res["error"])
                return 2
            total += res["n"]
            raised += res["raised"]
            for v in res["viol"]:
                kinds[v["kind"]] = kinds.get(v["kind"], 0) + 1
                if kinds[v["kind"]] <= 5:
                    rep.report(v, dict(kind="call", module="mc.enum_c11", case=v["case"]))
        jobs = [(n, s, dict(lazy=l, cache=True)) for n, s in scoping_scenarios() for l in (True, False)]
        sc = dict(jobs=0, execs=0, states=0, trans=0)
        for r in pool.imap_unordered(_scope_work, jobs, chunksize=1):
            if r.get("error"):
                print("MACHINERY-ERROR", r["name"], r["error"])
                return 2
            sc["jobs"] += 1
            sc["execs"] += r["execs"]
            sc["states"] += r["states"]
            sc["trans"] += r["transitions"]
            for v in r["viols"]:
                if v["prop"] not in ("C01", "C02", "C05"):
                    continue     # data visibility inside a time step is C03's business (F6)
                kinds["scoping:" + v["kind"]] = kinds.get("scoping:" + v["kind"], 0) + 1
                v2 = dict(prop="C11", kind="group-scoping", cls=None, sim=v.get("sim"),
                          msg=f"{r['name']}: [{v['prop']}/{v['kind']}] {v['msg']}")
                rep.report(v2, dict(kind="schedule", scenario=r["scen"], cfg=r["cfg"], name=r["name"],
                                    choices=v.get("choices"), names=v.get("names"),
                                    orig=dict(prop=v["prop"], kind=v["kind"])))
        gp = group_programs(8 if tier == "quick" else 10)
        gjobs = [(p_, k_) for p_ in gp for k_ in (("scenario", "other") if "!" in p_ else ("scenario",))]
        ngp = 0
        for res in pool.imap_unordered(_group_work, gjobs, chunksize=16):
            if res.get("error"):
                print("MACHINERY-ERROR", res["error"])
                return 2
            ngp += 1
            for v in res["viol"]:
                kinds[v["kind"]] = kinds.get(v["kind"], 0) + 1
                if kinds[v["kind"]] <= 5:
                    rep.report(v, dict(kind="call", module="mc.enum_c11", case=v["case"]))
    total += ngp
    rc = rep.finish()
    cov = dict(
        states=total + sc["states"], transitions=total + sc["trans"],
        traces_validated_against_impl=total + sc["execs"],
        evaluations=total + sc["execs"], distinct_nontrivial=raised,
        rule="one evaluation = one connect() call on the real World (or one execution of a scoping "
             "scenario); non-trivial = the call was rejected",
        samples=[dict(case=dict(st="T", dt="H", sg="g", dg="g2", pairs=[["po", "mi"]], shift=0,
                                weak=True, init=True), expect="ScenarioError: weak-no-shared-group")],
        exhaustive=True, connect_calls=total - ngp, rejected=raised, scoping=sc,
        group_block_programs=ngp,
        violation_kinds=kinds,
    )
    evidence.write("C11", tier, "model_checking", cov,
                   ["models of the three stub types; one unknown attribute name stands for all",
                    "'leaves no data-flow behind' is judged on a generic walk of both SimRunner "
                    "objects and the entity graph before/after"],
                   time.time() - t0, len(rep.violations))
    print(f"C11 {tier}: group-block programs={ngp} connect calls={total - ngp} rejected={raised} scoping={sc} "
          f"violations={len(rep.violations)} wall={time.time() - t0:.1f}s")
    return rc
