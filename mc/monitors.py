"""Trace monitors: evaluate the scheduler properties on one execution.

The monitor consumes the global event sequence of an execution
(B = step begun, S = step returned, G = get_data begun, D = get_data returned,
F = finalize, AS/AG/AR = asynchronous requests) and judges it against the
reference semantics of ``refmodel`` -- never against mosaik's own bookkeeping.

Its state is a function of the per-simulator event sequences plus the in-flight
set, which the explorer hashes into the canonical state, so that state merging
stays sound for the verdicts.
"""
from __future__ import annotations

import collections
import json

from .refmodel import Topo, zero
from .harness import init_token

NONE = "<none>"


def V(prop, kind, msg, cls=None, **kw):
    d = dict(prop=prop, kind=kind, msg=msg, cls=cls)
    d.update(kw)
    return d


class Monitor:
    def __init__(self, scen, cfg):
        self.scen = scen
        self.cfg = cfg
        T = self.T = Topo(scen)
        self.until = T.until
        self.viol = []
        self.n = 0
        self.D = {sid: {} for sid in T.sims}          # demanded tt -> set(causes)
        self.X = {sid: [] for sid in T.sims}          # executed tts in order
        self.Xset = {sid: set() for sid in T.sims}
        for sid, s in T.sims.items():
            d = T.depth(sid)
            if s.get("init_event") is not None:
                ie = s["init_event"]
                ie = ie[-1] if isinstance(ie, list) else ie     # the last call counts
                self.D[sid][(ie,) + zero(d - 1)] = {"init"}
            elif s["type"] != "event-based":
                self.D[sid][zero(d)] = {"init"}
        self.cur = {}        # sid -> (k, tt) step in flight
        self.begun = {}      # sid -> last begun tt
        self.outs = {sid: [] for sid in T.sims}   # (k, step_tt, out_tt, data)
        self.needs_data = {
            sid: any(c["src"] == sid and c.get("sattr") for c in T.conns)
            for sid in T.sims
        }
        self.consumed = collections.defaultdict(set)
        self.consumed_i = collections.defaultdict(set)
        self.promises = {}
        self.stepcause = {}
        self.has_trig = {
            sid: any(c["dst"] == sid and T.is_trigger(c) for c in T.conns)
            for sid in T.sims
        }
        # asynchronous requests (C16)
        self.steps_in = []       # (sid, tt, inputs, event index) judged in finish()
        self.n_begun = 0
        self.async_pending = collections.defaultdict(dict)   # dst sid -> {(attr, src_full): val}
        self.repeat = collections.defaultdict(dict)          # sid -> {tt: repeated steps owed}
        self.async_optional = collections.defaultdict(dict)  # ... of refused multi-destination calls
        self.async_sent = {}                                 # value -> time of the sender's step
        self.async_delivered = set()
        self.finalized = collections.Counter()
        self.faulted = None

    # ------------------------------------------------------------------------
    def add(self, *a, **kw):
        v = V(*a, **kw)
        v["at"] = self.n
        self.viol.append(v)

    def pending(self, sid):
        return sorted(t for t in self.D[sid] if t not in self.Xset[sid])

    def feed(self, ev):
        self.n += 1
        k = ev[0]
        if k == "B":
            self.on_begin(ev)
        elif k == "S":
            self.on_step_ret(ev)
        elif k == "D":
            self.on_data(ev)
        elif k == "AS2":
            self.on_async_set2(ev)
        elif k == "AS":
            self.on_async_set(ev)
        elif k == "AG":
            self.on_async_get(ev)
        elif k == "AR":
            self.on_async_result(ev)
        elif k == "F":
            self.finalized[ev[1]] += 1
        elif k == "EV":
            # an external event accepted by mosaik (set_event in real-time mode): a demand
            _, sid, t, outcome = ev
            if outcome == "ok" and isinstance(t, int) and 0 <= t < self.until:
                tt = (t,) + zero(self.T.depth(sid) - 1)
                if tt in self.Xset[sid]:
                    # the simulator has already begun (or finished) its step for that tick and
                    # the tick is still ahead on the wall clock: the event asks for ANOTHER step
                    # at the same time (the simulator must get to see the new external input)
                    self.repeat[sid][tt] = self.repeat[sid].get(tt, 0) + 1
                else:
                    self.D[sid].setdefault(tt, set()).add("ext")

    # ------------------------------------------------------------------------
    def on_begin(self, ev):
        self.n_begun += 1
        _, sid, k, t, inputs, madv = ev
        T, until, D, X = self.T, self.until, self.D, self.X
        conns = T.conns
        pend = self.pending(sid)
        t0 = (t,) + zero(T.depth(sid) - 1)
        if self.repeat[sid].get(t0) and X[sid] and X[sid][-1] == t0 and sid not in self.cur:
            # the repeated step that an external event for the running tick has asked for
            self.repeat[sid][t0] -= 1
            self.begun[sid] = t0
            self.cur[sid] = (k, t0)
            self.check_inputs(sid, t0, inputs)
            return
        if not pend or pend[0][0] != t:
            cand = [p for p in pend if p[0] == t]
            if (t,) + zero(T.depth(sid) - 1) in self.Xset[sid] and not cand:
                kind = "duplicated-step"
            elif cand:
                kind = "skipped-earlier-demand"
            else:
                kind = "spurious-step"
            self.add("C02", kind,
                     f"{sid} stepped at {t} (k={k}) but pending demands are {pend[:3]}, "
                     f"executed={X[sid][-3:]}", sim=sid)
            tt = cand[0] if cand else (t,) + zero(T.depth(sid) - 1)
        else:
            tt = pend[0]
        if X[sid] and tt <= X[sid][-1]:
            self.add("C02", "out-of-order",
                     f"{sid} step order not increasing: {X[sid][-1]} then {tt}", sim=sid)
        if not (0 <= t < until):
            self.add("C02", "outside-range", f"{sid} stepped outside [0,until): {t}", sim=sid)
        if sid in self.cur:
            self.add("C02", "overlapping-step",
                     f"{sid} begins {tt} while its step {self.cur[sid][1]} is still in flight",
                     sim=sid)
        X[sid].append(tt)
        self.Xset[sid].add(tt)

        # ---- C01, first form: every producer finished everything due at or before tt
        for ci, c in enumerate(conns):
            if c["dst"] != sid or c["src"] == sid:
                continue
            p = c["src"]
            if p in self.cur:
                pk, ptt = self.cur[p]
                if T.arrive(c, ptt) <= tt:
                    self.add("C01", "producer-in-flight",
                             f"{sid}@{tt} begins while producer {p}@{ptt} is in flight "
                             f"(conn {ci}: due {T.arrive(c, ptt)})", sim=sid, other=p)
            pendp = [q for q in self.pending(p)
                     if q[0] < until and T.arrive(c, q) <= tt]
            if pendp:
                self.add("C01", "producer-step-outstanding",
                         f"{sid}@{tt} begins but producer {p} has unexecuted demanded "
                         f"step(s) {pendp[:2]} due at or before it (conn {ci})",
                         sim=sid, other=p)
        # ---- C01, transitively: a step that some simulator still has to finish (demanded or in
        # flight) and that can trigger a producer p of this simulator at a time whose output is
        # due at or before tt.  mosaik cannot know that the relays in between will stay silent;
        # for the behaviour in which they do not, p would be stepped after this step has begun.
        for ci, c in enumerate(conns):
            if c["dst"] != sid or c["src"] == sid or not c.get("sattr"):
                continue
            p = c["src"]
            for q in T.sims:
                if q in (sid, p):
                    continue
                xs = [x for x in self.pending(q) if x[0] < until]
                if q in self.cur:
                    xs.append(self.cur[q][1])
                for x in xs:
                    a = T.earliest_trigger_tuple(q, p, x)
                    if a is not None and a[0] < until and T.arrive(c, a) <= tt:
                        self.add("C01", "ancestor-step-outstanding",
                                 f"{sid}@{tt} begins although the step {x} that {q} still has to "
                                 f"finish can trigger its producer {p} at {a} (conn {ci}: due "
                                 f"{T.arrive(c, a)})", sim=sid, other=q)
                        break
        # ---- C01, second form: this step must not be due for a consumer step already begun
        for ci, c in enumerate(conns):
            if c["src"] != sid or c["dst"] == sid:
                continue
            q = c["dst"]
            if q in self.begun and T.arrive(c, tt) <= self.begun[q]:
                self.add("C01", "producer-stepped-late",
                         f"producer {sid}@{tt} stepped after consumer {q} began "
                         f"{self.begun[q]} (conn {ci}: due {T.arrive(c, tt)})",
                         sim=sid, other=q)
        # ---- C10 lazy stepping
        if self.cfg.get("lazy", True):
            seen = set()
            for c in conns:
                if c["src"] != sid or c["dst"] == sid or c["dst"] in seen:
                    continue
                q = c["dst"]
                seen.add(q)
                lim = T.adapt(sid, q, tt)
                outst = [x for x in self.pending(q) if x < lim and x[0] < until]
                if q in self.cur and self.cur[q][1] < lim:
                    outst.append(self.cur[q][1])
                if outst:
                    self.add("C10", "run-ahead",
                             f"{sid}@{tt} begins while consumer {q} has outstanding "
                             f"{sorted(outst)[:2]} earlier than {lim}", sim=sid, other=q)
        # ---- C16: A must not begin a step later than t while an agent step at t is unfinished
        for c in conns:
            if not c.get("async") or c["src"] != sid:
                continue
            q = c["dst"]
            lim = T.adapt(sid, q, tt)
            outst = [x for x in self.pending(q) if x < lim and x[0] < until]
            if q in self.cur and self.cur[q][1] < lim:
                outst.append(self.cur[q][1])
            if outst:
                self.add("C16", "agent-step-unfinished",
                         f"{sid}@{tt} begins while async agent {q} has unfinished "
                         f"step(s) {sorted(outst)[:2]}", sim=sid, other=q)
                # the agent is connected to A's inputs through set_data: what it sets during
                # a step earlier than this one is due at or before this step (C01)
                self.add("C01", "async-producer-unfinished",
                         f"{sid}@{tt} begins while {q}, which feeds it through set_data (async "
                         f"connection), has unfinished earlier step(s) {sorted(outst)[:2]}",
                         sim=sid, other=q)
        # ---- C07 max_advance
        if madv is not None:
            if madv > until:
                self.add("C07", "exceeds-until", f"{sid}@{tt} max_advance {madv} > until {until}",
                         sim=sid)
            if not self.has_trig[sid] and madv != until:
                self.add("C07", "not-until",
                         f"{sid}@{tt} has no trigger inputs but max_advance {madv} != until {until}",
                         sim=sid)
            # the promise must stop short of every time at which a step that an ancestor still
            # has to perform (demanded or in flight) could trigger this simulator: mosaik cannot
            # know that such a step will stay silent, and for the simulator behaviour in which it
            # does not, the promise would be broken
            pot = []
            for q in T.sims:
                if q == sid:
                    continue
                xs = [x for x in self.pending(q) if x[0] < until]
                if q in self.cur:
                    xs.append(self.cur[q][1])
                for x in xs:
                    p = T.earliest_trigger(q, sid, x)
                    if p is not None and t < p < until:
                        pot.append((p, q, x))
            if pot and madv >= min(pot)[0]:
                p, q, x = min(pot)
                self.add("C07", "promise-ignores-pending-ancestor-step",
                         f"{sid}@{tt} is promised max_advance={madv} although the step {x} that "
                         f"{q} still has to finish can trigger it at time {p}", sim=sid, other=q)
        causes = set(D[sid].get(tt, set()))
        self.stepcause[(sid, tt)] = causes
        for (ptt, pm) in self.promises.get(sid, []):
            if pm is not None and ptt[0] < t <= pm:
                if not (causes and all(self._excusable(c_, sid, ptt) for c_ in causes)):
                    # root cause: every chain of causes ends in an external event (set_event in
                    # real-time mode) of ANOTHER simulator
                    cls = "external-event-of-ancestor" if self._only_external(causes, sid) else None
                    if cls is None and causes and self._roots(sid, causes) == {("ext", sid)}:
                        continue      # the simulator's own set_event: its own control
                    self.add("C07", "promise-broken",
                             f"{sid} stepped at {tt} inside the promised window "
                             f"({ptt[0]},{pm}] of its step {ptt}; causes="
                             f"{sorted(map(str, causes))}", sim=sid, cls=cls)
        self.promises.setdefault(sid, []).append((tt, madv))
        # ---- C03 inputs
        self.check_inputs(sid, tt, inputs)
        self.cur[sid] = (k, tt)
        self.begun[sid] = tt

    def _roots(self, owner, causes, seen=()):
        """root causes of a step of `owner` with the given causes: (kind, simulator) pairs"""
        out = set()
        for c in causes:
            if c in ("init", "ext"):
                out.add((c, owner))
            elif c in seen or not self.stepcause.get(c):
                out.add(("unknown", None))
            else:
                out |= self._roots(c[0], self.stepcause[c], seen + (c,))
        return out

    def _only_external(self, causes, sid):
        """every chain of causes ends in an external event, at least one of ANOTHER simulator"""
        roots = self._roots(sid, causes)
        return bool(roots) and all(k == "ext" for k, _ in roots) and any(q != sid for _, q in roots)

    def _excusable(self, step, sid, ptt, seen=()):
        if step in ("init", "ext"):
            return False
        if step[0] == sid and step[1] >= ptt:
            return True
        cs = self.stepcause.get(step, set())
        if not cs or step in seen:
            return False
        return all(self._excusable(c, sid, ptt, seen + (step,)) for c in cs)

    # ------------------------------------------------------------------------
    def check_inputs(self, sid, tt, inputs):
        """C16 part immediately; the data-flow part (C03) is judged in finish() against the
        producers' *complete* output histories: the verdict is then a function of the
        per-simulator sequences alone, and an input that was read too early (before the value
        due for it had been produced) is seen as the wrong value that it is."""
        got = json.loads(inputs)
        gset = {}
        for e, av in list(got.items()):
            for a, kv in list(av.items()):
                for kf, v in list(kv.items()):
                    if isinstance(v, str) and v.endswith("s"):
                        gset[(a, kf)] = v
                        del kv[kf]
        self.check_async_inputs(sid, tt, gset)
        self.steps_in.append((sid, tt, got, self.n))

    def judge_inputs(self):
        T = self.T
        consumed = collections.defaultdict(set)
        delivered = collections.defaultdict(list)    # (sid, attr, key) -> [(tt, value)]
        for (sid, tt, got, at) in self.steps_in:
            exp = {}
            for ci, c in enumerate(T.conns):
                if c["dst"] != sid or not c.get("sattr"):
                    continue
                p = c["src"]
                se = c.get("seid", "e")
                key = f"{p}.{se}"
                slot = exp.setdefault(c.get("deid", "e"), {}).setdefault(c["dattr"], {})
                if T.is_persistent(c):
                    val = NONE
                    for (pk, ptt, ott, data) in self.outs[p]:
                        if c["sattr"] in data.get(se, {}) and T.arrive(c, ott) <= tt:
                            val = data[se][c["sattr"]]
                    if val is NONE and c.get("init"):
                        val = init_token(c)
                    slot[key] = val
                else:
                    due = [(pk, data[se][c["sattr"]]) for (pk, ptt, ott, data) in self.outs[p]
                           if c["sattr"] in data.get(se, {}) and T.arrive(c, ott) <= tt
                           and pk not in consumed[ci]]
                    if due:
                        for pk, _ in due:
                            consumed[ci].add(pk)
                        slot[key] = due[-1][1]
            g2, e2 = _reconcile(got, exp)
            if g2 != e2:
                groups = collections.defaultdict(list)
                for (a, key, gv, xv) in _entry_diffs(g2, e2):
                    groups[self._explain(sid, tt, a, key, gv, xv, delivered)].append((a, key, gv, xv))
                for cls, entries in groups.items():
                    self.viol.append(dict(
                        prop="C03", kind="wrong-inputs", cls=cls, sim=sid, at=at,
                        msg=f"{sid}@{tt} inputs {_short(g2)} expected {_short(e2)}"
                            + (f" (entries {[(a, k) for a, k, _, _ in entries]})" if len(groups) > 1 else ""),
                        got=g2, exp=e2))
            for e, av in got.items():
                for a, kv in av.items():
                    for key, v in kv.items():
                        delivered[(sid, a, key)].append((tt, v))
        return consumed

    def _reply_of(self, token):
        """(producer, step index) of a provenance token like 'A3' or 'A3e'"""
        if not isinstance(token, str):
            return None
        t = token[:-1] if token.endswith("e") else token
        t = t[:-1] if t.endswith(("F", "K")) else t   # second entity / child entity
        for p in self.T.sims:
            if t.startswith(p) and t[len(p):].isdigit():
                return p, int(t[len(p):])
        return None

    def _explain(self, sid, tt, attr, key, gv, xv, delivered):
        """root-cause classifier of one deviating input entry (None = unexplained)"""
        T = self.T
        p = key.split(".")[0]
        conns = [c for c in T.conns if c["dst"] == sid and c["src"] == p and c.get("dattr") == attr]
        # F6: the value received stems from a reply that is visible in integer time but not yet
        # due in tiered time (a later sub-step of the same time step) ...
        rg = self._reply_of(gv)
        if rg and rg[0] == p and conns:
            for (pk, ptt, ott, data) in self.outs[p]:
                if pk == rg[1]:
                    if any(T.arrive(c, ott)[0] <= tt[0] and T.arrive(c, ott) > tt for c in conns):
                        return "integer-time-visibility"
        # ... or the event that is due now was already delivered prematurely for that reason
        # (the same event, or -- one value per source and attribute -- a newer one that
        # superseded it in the buffer, was handed over at an earlier sub-step of this time step)
        if gv is None or gv == NONE or rg is None:
            rx = self._reply_of(xv)
            if rx and rx[0] == p:
                for (t0, v0) in delivered.get((sid, attr, key), []):
                    r0 = self._reply_of(v0)
                    if r0 and r0[0] == p and r0[1] >= rx[1] and t0[0] == tt[0] and t0 < tt:
                        return "integer-time-visibility"
        # F14: initial data declared on another connection from the same source attribute
        if self.cfg.get("cache", True) and conns and not any(c.get("init") for c in conns) \
                and (xv is None or xv == NONE):
            others = [c for c in T.conns if c["src"] == p and c.get("sattr") == conns[0]["sattr"]
                      and c.get("init") and c not in conns]
            if others and gv == init_token(others[0]):
                return "initial-data-shared-via-cache"
        return None

    def _only_foreign_init(self, sid, got, exp):
        """classifier of F14: every deviating entry is the initial data that was declared on a
        *different* connection from the same source attribute, seen where this connection has
        nothing to deliver (cache=True only)"""
        T = self.T
        diffs = 0
        for e in set(got) | set(exp):
            for a in set(got.get(e, {})) | set(exp.get(e, {})):
                gk, xk = got.get(e, {}).get(a, {}), exp.get(e, {}).get(a, {})
                for key in set(gk) | set(xk):
                    if gk.get(key) == xk.get(key):
                        continue
                    diffs += 1
                    p = key.split(".")[0]
                    mine = [c for c in T.conns if c["dst"] == sid and c["src"] == p and c.get("dattr") == a]
                    if not mine or any(c.get("init") for c in mine) or xk.get(key, NONE) != NONE:
                        return False
                    others = [c for c in T.conns if c["src"] == p and c.get("sattr") == mine[0]["sattr"]
                              and c.get("init") and c not in mine]
                    if not others or gk.get(key) != init_token(others[0]):
                        return False
        return diffs > 0

    # ------------------------------------------------------------------------
    def _demand(self, p, x, cause):
        """register the demand x of simulator p; if it is new, no consumer of p may already have
        begun a step at or after the time its output is due (C01, second form, judged when the
        demand arises -- the run may die before p ever performs that step)"""
        new = x not in self.D[p]
        self.D[p].setdefault(x, set()).add(cause)
        if not new or x in self.Xset[p]:
            return
        for ci, c in enumerate(self.T.conns):
            if c["src"] != p or c["dst"] == p or not c.get("sattr"):
                continue
            q = c["dst"]
            if q in self.begun and self.T.arrive(c, x) <= self.begun[q]:
                self.add("C01", "consumer-stepped-before-demand",
                         f"{q} has already begun {self.begun[q]} when the step {x} of its producer "
                         f"{p} is demanded (conn {ci}: due {self.T.arrive(c, x)})", sim=q, other=p)

    def on_step_ret(self, ev):
        _, sid, k, t, nxt = ev
        if sid not in self.cur:
            return
        k0, tt = self.cur[sid]
        if isinstance(nxt, int) and not isinstance(nxt, bool) and t < nxt < self.until:
            d = (nxt,) + zero(self.T.depth(sid) - 1)
            self._demand(sid, d, (sid, tt))
        if not self.needs_data[sid]:
            del self.cur[sid]

    def on_data(self, ev):
        _, sid, k, t, data = ev
        data = json.loads(data)
        if sid not in self.cur:
            return
        k0, tt = self.cur.pop(sid)
        ot = data.get("time", t)
        if not isinstance(ot, int) or ot < t:
            return   # malformed reply: judged by the C13 monitor
        ott = tt if ot == t else (ot,) + zero(len(tt) - 1)
        self.outs[sid].append((k, tt, ott, data))
        T = self.T
        for ci, c in enumerate(T.conns):
            if c["src"] != sid or not c.get("sattr") or not T.is_trigger(c):
                continue
            if c["sattr"] in data.get(c.get("seid", "e"), {}):
                a = T.arrive(c, ott)
                if a[0] < self.until:
                    self._demand(c["dst"], a, (sid, tt))

    # ------------------------------------------------------------------------
    def on_async_set(self, ev):
        _, sid, k, t, dst_full, attr, val = ev
        dst = dst_full.split(".")[0]
        ok = self._async_allowed(sid, dst)
        self.last_async = getattr(self, "last_async", {})
        self.last_async[sid] = ("set", ok, dst_full)
        self.async_sent[val] = t
        if ok:
            self.async_pending[dst][(attr, f"{sid}.e")] = val
        else:
            self.async_pending["!refused"][(dst, attr, f"{sid}.e")] = val

    def on_async_set2(self, ev):
        """one set_data call with several destinations: refused as a whole if any destination
        has no async_requests connection; what the allowed destinations named before the first
        forbidden one then hold is unspecified (they may or may not have received the value)"""
        _, sid, k, t, dsts, attr, val = ev
        dsts = json.loads(dsts)
        oks = [self._async_allowed(sid, d.split(".")[0]) for d in dsts]
        self.last_async = getattr(self, "last_async", {})
        self.last_async[sid] = ("set", all(oks), ",".join(dsts))
        self.async_sent[val] = t
        for d, ok in zip(dsts, oks):
            dst = d.split(".")[0]
            if all(oks):
                self.async_pending[dst][(attr, f"{sid}.e")] = val
            elif ok:
                self.async_optional[dst][(attr, f"{sid}.e")] = val
            else:
                self.async_pending["!refused"][(dst, attr, f"{sid}.e")] = val

    def _async_allowed(self, requester, target):
        return any(c.get("async") and c["src"] == target and c["dst"] == requester
                   for c in self.T.conns)

    def on_async_get(self, ev):
        _, sid, k, t, src_full, attr = ev
        self.last_async = getattr(self, "last_async", {})
        self.last_async[sid] = ("get", self._async_allowed(sid, src_full.split(".")[0]), src_full)

    def on_async_result(self, ev):
        sid, k, op, res = ev[1], ev[2], ev[3], ev[4]
        what = getattr(self, "last_async", {}).get(sid)
        if what is None:
            return
        _, allowed, target = what
        name = ev[5] if len(ev) > 5 and res != "ok" else res
        if allowed and res != "ok":
            self.add("C16", "allowed-request-failed",
                     f"{sid} step {k}: {op}_data towards {target} failed with {name}", sim=sid)
        if not allowed and (res == "ok" or "ScenarioError" not in str(name)):
            self.add("C16", "unconnected-request-not-refused",
                     f"{sid} step {k}: {op}_data towards {target} (no async_requests connection) "
                     f"ended with {name} instead of ScenarioError", sim=sid)

    def check_async_inputs(self, sid, tt, gset):
        exp = dict(self.async_pending.get(sid, {}))
        self.async_pending[sid] = {}
        opt = self.async_optional.pop(sid, {})
        for key, v in opt.items():       # part of a refused multi-destination call: optional
            if gset.get(key) == v and key not in exp:
                exp[key] = v
        if gset != exp:
            self.add("C16", "set-data-delivery",
                     f"{sid}@{tt} received set_data values {gset} expected {exp}", sim=sid)
        for key, v in gset.items():
            ts = self.async_sent.get(v)
            if ts is not None and ts >= tt[0]:
                # "delivered in A's NEXT step": a step later than the sender's step
                self.add("C16", "set-data-delivered-too-early",
                         f"{sid}@{tt} received {v}, which was sent during a step at time {ts}",
                         sim=sid)

    # ------------------------------------------------------------------------
    def expected_loop_error(self):
        """sims having a demanded tuple with a sub-tier >= max_loop_iterations"""
        m = self.T.max_loop
        out = {}
        for sid, d in self.D.items():
            bad = sorted(t for t in d if t[0] < self.until and any(x >= m for x in t[1:]))
            if bad:
                out[sid] = bad
        return out

    def finish(self, result):
        T = self.T
        consumed = self.judge_inputs()
        if result[0] == "ok":
            # "no value is lost": an event sent over a triggering connection demands a step of
            # the destination at its arrival time, where it is delivered -- in a run that came
            # to its regular end every such value with an arrival time before `until` has been
            for ci, c in enumerate(T.conns):
                if not c.get("sattr") or T.is_persistent(c) or not T.is_trigger(c):
                    continue
                se = c.get("seid", "e")
                lostv = [data[se][c["sattr"]] for (pk, ptt, ott, data) in self.outs[c["src"]]
                         if c["sattr"] in data.get(se, {}) and T.arrive(c, ott)[0] < self.until
                         and pk not in consumed[ci]]
                if lostv:
                    self.viol.append(dict(
                        prop="C03", kind="event-value-never-delivered", cls=None, sim=c["dst"],
                        at=self.n, msg=f"{c['dst']} never received {lostv[:3]} sent over connection "
                                       f"{ci} ({c['src']}.{se}.eo -> {c.get('deid', 'e')}.{c['dattr']}) "
                                       f"although run() returned normally"))
        exp_loop = self.expected_loop_error()
        # count-based reading of the guard for simulators with exactly one sub-step tier: more
        # than max_loop_iterations steps within one time step were performed
        for sid in T.sims:
            if T.depth(sid) != 2:
                continue
            cnt = collections.Counter(x[0] for x in self.X[sid])
            for t, n in cnt.items():
                if n > T.max_loop:
                    self.add("C09", "too-many-sub-steps",
                             f"{sid} performed {n} steps within time step {t} "
                             f"(max_loop_iterations={T.max_loop})", sim=sid)
                    break
        if result[0] == "exc" and result[1] == "ScenarioError" and not any(
                e[0] == "B" for e in self.steps_in) and self.n_begun == 0 \
                and T.unresolved_cycle() is not None:
            return self.viol      # the expected rejection of a scenario with an unresolved cycle
        if result[0] == "ok":
            for sid in T.sims:
                lost = [x for x in self.pending(sid) if x[0] < self.until]
                if sid in exp_loop:
                    self.add("C09", "loop-not-stopped",
                             f"{sid} demanded sub-step(s) {exp_loop[sid][:2]} beyond "
                             f"max_loop_iterations={T.max_loop} but run() returned normally",
                             sim=sid)
                    lost = [x for x in lost if x not in exp_loop[sid]]
                owed = [x for x, n in self.repeat[sid].items() if n > 0]
                if owed:
                    self.add("C02", "lost-step",
                             f"{sid} was not stepped again at {owed[:3]} although an external event "
                             f"for that (still running) tick was accepted after its step", sim=sid)
                if lost:
                    self.add("C02", "lost-step", f"{sid} lost demanded step(s) {lost[:3]}", sim=sid)
                    if T.depth(sid) >= 2 and any(c.get("weak") for c in T.conns):
                        # a sub-step of a same-time loop that is silently dropped cuts the loop
                        # short: it is neither completed nor stopped with the guard's error
                        self.add("C09", "loop-cut-short",
                                 f"{sid} never performed the demanded sub-step(s) {lost[:3]} although "
                                 f"run() returned normally", sim=sid)
                if self.cur.get(sid):
                    self.add("C05", "in-flight-at-end", f"{sid} still in flight at end", sim=sid)
        elif result[0] == "exc" and result[1] == "SimulationError" and (
                _names(result[2], exp_loop) or _looks_like_loop_guard(result[2])):
            # the loop guard: a SimulationError naming a simulator with an over-limit demand
            # (recognised by that, not by the wording of the message)
            named = _names(result[2], exp_loop)
            if not named:
                self.add("C09", "loop-interrupted",
                         f"run() stopped with the loop guard ({result[2][:120]}) but no named "
                         f"simulator demanded a sub-step beyond max_loop_iterations={T.max_loop}; "
                         f"over-limit demands: {exp_loop}")
                # ... which also means that an accepted scenario whose loops all settle did not
                # run to completion
                self.add("C05", "spurious-loop-guard",
                         f"run() ended with {result[:2]} ({result[2][:100]}) although no simulator "
                         f"demands a sub-step beyond max_loop_iterations={T.max_loop}")
            else:
                for sid in named:
                    # F22: the index that trips the guard was inherited from an earlier time step
                    # over a time-shifted connection inside the group, while the simulator performs
                    # no more than max_loop_iterations sub-steps within this time step
                    for bad in exp_loop[sid]:
                        same_t = [x for x in self.D[sid] if x[0] == bad[0]]
                        spans = [max(x[j] for x in same_t) - min(x[j] for x in same_t)
                                 for j in range(1, len(bad))]
                        carried = [x for x in same_t if any(x[1:]) and any(
                            c not in ("init", "ext") and c[1][0] < x[0] for c in self.D[sid][x])]
                        if carried and all(s < T.max_loop for s in spans):
                            self.add("C09", "loop-interrupted",
                                     f"{sid} performs only {len(same_t)} sub-step(s) at time {bad[0]} "
                                     f"({sorted(same_t)}) but run() stopped with the loop guard at "
                                     f"{bad}: the sub-step index was carried over from time "
                                     f"{bad[0] - 1} by a time-shifted connection",
                                     cls="sub-step-index-carried-over-time-shift", sim=sid)
                            self.add("C05", "spurious-loop-guard",
                                     f"run() ended with the loop guard at {sid}@{bad} although {sid} "
                                     f"performs only {len(same_t)} sub-step(s) at time {bad[0]}",
                                     cls="sub-step-index-carried-over-time-shift", sim=sid)
                            break
                    ex = [x for x in exp_loop[sid] if x in self.Xset[sid]]
                    if ex:
                        self.add("C09", "over-limit-step-executed",
                                 f"{sid} executed sub-step(s) {ex[:2]} beyond the limit", sim=sid)
        else:
            for sid, bad in exp_loop.items():
                ex = [x for x in bad if x in self.Xset[sid]]
                if ex:
                    self.add("C09", "over-limit-step-executed",
                             f"{sid} executed sub-step(s) {ex[:2]} beyond max_loop_iterations="
                             f"{T.max_loop} (run() ended with {result[:2]})", sim=sid)
            cls = None
            if result[0] == "deadlock" and self.cfg.get("lazy", True) and T.group_reentry():
                cls = "lazy-wait-across-group-reentry"
            if result[0] == "exc" and result[1] == "AssertionError" and "incomparable" in result[2] \
                    and not any(self.X.values()) and not self.cur and T.group_reentry():
                # F7: the assertion comes out of the minimum-delay closures that run() performs
                # BEFORE any simulator is stepped, for a scenario in which one path between two
                # members of a group leaves the group and comes back
                cls = "incomparable-in-closure"
            self.add("C05", _outcome_kind(result), f"run() ended with {result}", cls=cls)
            if exp_loop and cls is None and not (result[0] == "exc" and result[1] == "ScenarioError"):
                # a loop that exceeds the bound must be STOPPED WITH THE ERROR, not hang
                self.add("C09", "loop-not-stopped-with-error",
                         f"sub-step(s) beyond max_loop_iterations={T.max_loop} are demanded "
                         f"({ {s: b[:1] for s, b in exp_loop.items()} }) but run() ended with "
                         f"{result[:2]} instead of the SimulationError naming the simulator")
            refused = result[0] == "exc" and result[1] == "ScenarioError" and any(
                not w[1] for w in getattr(self, "last_async", {}).values())
            # (a request without an async_requests connection is refused with a ScenarioError,
            # which for an in-process simulator ends the run: the expected outcome there)
            if any(c.get("async") for c in T.conns) and not refused:
                self.add("C16", "run-aborted",
                         f"run() ended with {result[:2]}: values set by the agents afterwards can "
                         f"never be delivered", cls=cls)
            if not exp_loop and any(c.get("weak") for c in T.conns) \
                    and result[0] in ("deadlock", "livelock"):
                self.add("C09", "settling-loop-did-not-complete",
                         f"the same-time loop settles within the bound but run() ended with "
                         f"{result[0]}: time does not advance", cls=cls)
            if not exp_loop and result[0] == "exc" and not refused:
                members = {c["src"] for c in T.conns if c.get("weak")} | \
                          {c["dst"] for c in T.conns if c.get("weak")}
                owed = {s: [x for x in self.pending(s) if x[0] < self.until][:2] for s in sorted(members)}
                owed = {s: v for s, v in owed.items() if v}
                if owed:
                    self.add("C09", "settling-loop-interrupted",
                             f"every same-time loop settles within the bound, but run() ended with "
                             f"{result[:2]} while loop members still had demanded steps {owed}",
                             cls=cls)
            # an unexpected abort also means that the steps still demanded are never executed
            for sid in T.sims:
                lost = [x for x in self.pending(sid) if x[0] < self.until
                        and x not in exp_loop.get(sid, [])]
                if lost and not self.faulted:
                    self.add("C02", "lost-step",
                             f"{sid} lost demanded step(s) {lost[:3]}: run() aborted with "
                             f"{_outcome_kind(result)}", sim=sid, cls=cls)
        return self.viol


def _names(msg, sids):
    import re
    return [sid for sid in sids if re.search(r"(?<![A-Za-z0-9_])" + re.escape(sid) + r"(?![A-Za-z0-9_])", msg)]


def _looks_like_loop_guard(msg):
    low = msg.lower()
    return "sub-step" in low or "max_loop_iterations" in low or "infinite loop" in low


def _outcome_kind(result):
    if result[0] in ("deadlock", "livelock"):
        return result[0]
    if result[0] == "exc":
        msg = result[2]
        if "cannot progress backwards" in msg:
            return "progress-backwards"
        if "incomparable" in msg:
            return "incomparable"
        if "already progressed" in msg:
            return "step-in-past"
        return f"unexpected-{result[1]}"
    return str(result[0])


def _put(slot, key, val):
    slot[key] = val


def _norm(d):
    return {e: {a: dict(v) for a, v in av.items() if v} for e, av in d.items()
            if any(v for v in av.values())}


def _reconcile(got, exp):
    """`<none>` in the expectation means "never produced, no initial data":
    None or absent are both accepted."""
    g = {e: {a: dict(v) for a, v in av.items()} for e, av in got.items()}
    x = {e: {a: dict(v) for a, v in av.items()} for e, av in exp.items()}
    for e in list(x):
        for a in list(x[e]):
            for kf in list(x[e][a]):
                if x[e][a][kf] == NONE:
                    gv = g.get(e, {}).get(a, {}).get(kf, None)
                    if gv is None:
                        x[e][a].pop(kf)
                        if kf in g.get(e, {}).get(a, {}):
                            g[e][a].pop(kf)
    return _norm(g), _norm(x)


def _entry_diffs(got, exp):
    out = []
    for e in sorted(set(got) | set(exp)):
        for a in sorted(set(got.get(e, {})) | set(exp.get(e, {}))):
            gk, xk = got.get(e, {}).get(a, {}), exp.get(e, {}).get(a, {})
            for key in sorted(set(gk) | set(xk)):
                if key in gk and key in xk and gk[key] == xk[key]:
                    continue
                out.append((a, key, gk.get(key, NONE), xk.get(key, NONE)))
    return out


def _short(d):
    return json.dumps(d, sort_keys=True)[:160]


def check_trace(scen, cfg, trace, result):
    m = Monitor(scen, cfg)
    for ev in trace:
        m.feed(ev)
    return m.finish(result)


def per_sim_view(trace):
    v = collections.defaultdict(list)
    for ev in trace:
        if ev[0] == "B":
            v[ev[1]].append((ev[3], ev[4]))
    return {k: tuple(x) for k, x in v.items()}
