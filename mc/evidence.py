"""Evidence files (/verif/evidence/<id>.json), validated against the schema."""
from __future__ import annotations

import json
import os
import subprocess

from . import env

EVID_DIR = os.path.join(env.VERIF_DIR, "evidence")
SCHEMA = "/root/.vp/EVIDENCE.schema.json"


def write(prop, tier, level, coverage, assumptions, wall_s, violations, extra=None):
    os.makedirs(EVID_DIR, exist_ok=True)
    doc = dict(property_id=prop, tier=tier, seed=env.seed(), level=level, coverage=coverage,
               assumptions=list(assumptions), wall_s=round(float(wall_s), 3),
               violations=int(violations))
    if extra:
        doc.update(extra)
    _self_check(doc)
    path = os.path.join(EVID_DIR, f"{prop}.json")
    tmp = path + ".tmp"
    with open(tmp, "w") as f:
        json.dump(doc, f, indent=1, sort_keys=True, default=str)
    os.replace(tmp, path)
    _schema_check(path)
    return path


def _self_check(doc):
    c = doc["coverage"]
    lvl = doc["level"]
    if lvl == "model_checking":
        for k in ("states", "transitions", "traces_validated_against_impl", "samples"):
            assert k in c, f"evidence lacks {k}"
        assert c["states"] >= 1 and c["transitions"] >= 1 and len(c["samples"]) >= 1
    if lvl in ("exploration", "fault_enumeration"):
        for k in ("evaluations", "distinct_nontrivial", "rule", "samples"):
            assert k in c, f"evidence lacks {k}"
        assert c["evaluations"] >= 1 and c["distinct_nontrivial"] >= 2 and len(c["samples"]) >= 1


def _schema_check(path):
    """Validate with the tooling venv's jsonschema when it is available."""
    if not (os.path.exists(SCHEMA) and os.path.exists("/usr/local/bin/python3-vt")):
        return
    code = ("import json,sys,jsonschema;"
            "jsonschema.validate(json.load(open(sys.argv[1])), json.load(open(sys.argv[2])))")
    try:
        r = subprocess.run(["python3-vt", "-c", code, path, SCHEMA], capture_output=True,
                           text=True, timeout=60)
    except Exception:  # noqa: BLE001
        return
    if r.returncode != 0 and "ValidationError" in r.stderr:
        raise RuntimeError(f"evidence {path} does not validate: {r.stderr[-400:]}")
