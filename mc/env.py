"""Environment glue: locate the mosaik tree under test, silence/capture logging.

``VERIF_REPO`` (default ``/repo``) is the tree whose ``mosaik`` package is
explored.  ``/venv`` has an editable install of ``/repo``; for any other tree
the directory is put in front of ``sys.path`` before mosaik is imported.
"""
from __future__ import annotations

import hashlib
import os
import sys

VERIF_DIR = os.path.dirname(os.path.dirname(os.path.abspath(__file__)))
REPO = os.path.abspath(os.environ.get("VERIF_REPO", "/repo"))
WORK = os.path.join(VERIF_DIR, ".work")

if VERIF_DIR not in sys.path:
    sys.path.insert(0, VERIF_DIR)
if REPO not in sys.path:
    sys.path.insert(0, REPO)

import mosaik  # noqa: E402

_mfile = os.path.abspath(mosaik.__file__)
if not _mfile.startswith(REPO + os.sep):
    raise RuntimeError(
        f"mosaik was imported from {_mfile}, not from VERIF_REPO={REPO}"
    )

from loguru import logger  # noqa: E402

logger.remove()
# tasks of finished runs that the GC destroys on a closed loop only produce noise
sys.unraisablehook = lambda unraisable: None

LOG_SINK = []          # the current run appends here: (level, message)


def _sink(message):
    rec = message.record
    if LOG_SINK:
        LOG_SINK[-1].append((rec["level"].name, rec["message"]))


logger.add(_sink, level="WARNING", format="{message}")
# mosaik_api_v3 disables its own logger; keep it that way.


def seed() -> int:
    try:
        return int(os.environ.get("VERIF_SEED", "0"))
    except ValueError:
        return 0


def source_digest() -> str:
    """SHA-256 over every source file that can influence a verdict."""
    h = hashlib.sha256()
    roots = [os.path.join(REPO, "mosaik"), os.path.join(VERIF_DIR, "mc")]
    for root in roots:
        for dp, dn, fn in sorted(os.walk(root)):
            dn.sort()
            if "__pycache__" in dp:
                continue
            for f in sorted(fn):
                if f.endswith(".py"):
                    p = os.path.join(dp, f)
                    h.update(p.encode())
                    with open(p, "rb") as fh:
                        h.update(fh.read())
    h.update(sys.version.encode())
    try:
        import mosaik_api_v3
        h.update(getattr(mosaik_api_v3, "__version__", "?").encode())
    except Exception:  # pragma: no cover
        pass
    return h.hexdigest()
