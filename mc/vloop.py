"""Virtual asyncio event loop owned by the explorer.

* deterministic FIFO ready queue (exactly CPython's batch semantics),
* a virtual clock (timers fire by jumping the clock, never by sleeping),
* *gates*: futures that stand for "a reply of a simulator is in flight".
  Only the explorer's choosers resolve them.

Choice points
-------------
quiescent      ready queue empty, gates pending  -> ``chooser(loop, names)``
               returns the name of the gate to release (mandatory).
non-quiescent  ready queue not empty, gates pending -> ``early(loop, names)``
               may return a name (an *early delivery*, one unit of deviation)
               or None.
Releasing a gate is modelled like an I/O event: a callback performing
``set_result`` is appended to the ready queue; the waiting task wakes one
iteration later, as with a socket read callback.

No ready callback, no gate, no timer while the loop is asked to continue
means the awaited future can never complete: ``Deadlock`` is raised out of
``run_until_complete``.
"""
from __future__ import annotations

import asyncio
import heapq


TIMER = ("~timer",)


class Deadlock(Exception):
    """Nothing can ever run again but the awaited future is not done."""


class Livelock(Exception):
    """The iteration budget of the loop was exhausted."""


class VLoop(asyncio.BaseEventLoop):
    def __init__(self, chooser=None, early=None, max_iterations=200000):
        super().__init__()
        self._vtime = 0.0
        self.on_quiescent = None     # hook: (loop, live gates, timers pending?) at every quiescent point
        self.gates = {}            # name -> future (insertion ordered)
        self.chooser = chooser
        self.early = early
        self.iterations = 0
        self.max_iterations = max_iterations
        self.pending_at_close = None
        self.allow_idle = False    # set during shutdown: idle loop is not a deadlock
        self.released = []         # names in release order (for traces)
        self.on_release = None
        self.timer_choice = False  # offer 'let the next timer fire' at quiescence

    # -- BaseEventLoop plumbing -------------------------------------------
    def time(self):
        return self._vtime

    def _process_events(self, event_list):
        pass

    def _write_to_self(self):
        pass

    # -- gates ------------------------------------------------------------
    def gate(self, name):
        fut = self.create_future()
        assert name not in self.gates, f"duplicate gate {name!r}"
        self.gates[name] = fut
        return fut

    def live(self):
        for k in [k for k, f in self.gates.items() if f.done()]:
            del self.gates[k]
        return sorted(self.gates, key=repr)

    def release(self, name):
        fut = self.gates.pop(name)
        self.released.append(name)
        if self.on_release is not None:
            self.on_release(name)

        def _fire():
            if not fut.done():
                fut.set_result(None)

        self.call_soon(_fire)

    # -- one iteration ------------------------------------------------------
    def _run_once(self):
        self.iterations += 1
        if self.iterations > self.max_iterations:
            raise Livelock(f"more than {self.max_iterations} loop iterations")
        sched = self._scheduled
        while sched and sched[0]._cancelled:
            h = heapq.heappop(sched)
            h._scheduled = False
            self._timer_cancelled_count = max(0, self._timer_cancelled_count - 1)
        if not self._ready:
            live = self.live()
            if self.on_quiescent is not None and not self._stopping:
                self.on_quiescent(self, live, bool(sched))
            pick = None
            if live and self.chooser is not None and not self._stopping:
                names = live + ([TIMER] if sched and self.timer_choice else [])
                pick = self.chooser(self, names)
            if pick is not None and pick != TIMER:
                self.release(pick)
            elif sched:
                h = heapq.heappop(sched)
                h._scheduled = False
                self._vtime = max(self._vtime, h._when)
                self._ready.append(h)
                # all timers due at the same instant fire in this iteration
                while sched and sched[0]._when <= self._vtime:
                    h = heapq.heappop(sched)
                    h._scheduled = False
                    if not h._cancelled:
                        self._ready.append(h)
            elif not self._stopping and not self.allow_idle:
                raise Deadlock()
        elif self.early is not None:
            live = self.live()
            if live:
                k = self.early(self, live)
                if k is not None:
                    self.release(k)
        n = len(self._ready)
        for _ in range(n):
            h = self._ready.popleft()
            if h._cancelled:
                continue
            h._run()
        h = None

    def close(self):
        if self.pending_at_close is None:
            try:
                self.pending_at_close = [
                    t for t in asyncio.all_tasks(self) if not t.done()
                ]
            except Exception:  # pragma: no cover
                self.pending_at_close = []
        super().close()
