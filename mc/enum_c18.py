"""C18 -- bulk connection helpers: every outcome of every random call is enumerated
(mosaik.util.random is rebound to an enumerating source: shuffle = every permutation,
randint(a, b) = every value), for all set sizes / flags in the bound."""
from __future__ import annotations

import itertools
import math
import time

from . import env, evidence, findings  # noqa: F401
from .choices import all_executions

import mosaik.util as mutil

INF = float("inf")


class EnumRandom:
    def __init__(self, chooser):
        self.ch = chooser

    def shuffle(self, lst):
        n = len(lst)
        idx = self.ch(math.factorial(n))
        perm = list(itertools.permutations(range(n)))[idx] if n <= 6 else None
        items = [lst[i] for i in perm]
        lst[:] = items

    def randint(self, a, b):
        return a + self.ch(b - a + 1)

    def __getattr__(self, name):
        raise AttributeError(f"random.{name} is not modelled by the enumerating source")


class RecWorld:
    def __init__(self):
        self.calls = []

    def connect(self, src, dest, *attrs, **kw):
        self.calls.append((src, dest, attrs, kw))


def _shaped(items, shape):
    """the documented argument type is "iterables containing Entity instances": lists, tuples,
    sets (connect_randomly itself returns one), one-shot iterators"""
    return {"list": list, "tuple": tuple, "set": set, "iter": iter,
            "gen": lambda x: (y for y in x)}[shape](items)


def run_randomly(ns, nd, evenly, maxc, chooser, shapes=("list", "list")):
    src = [f"s{i}" for i in range(ns)]
    dst = [f"d{i}" for i in range(nd)]
    w = RecWorld()
    old = mutil.random
    mutil.random = EnumRandom(chooser)
    try:
        kw = dict(evenly=evenly)
        if maxc != INF:
            kw["max_connects"] = maxc
        handed = list(dst)          # the caller's own list object
        try:
            ret = mutil.connect_randomly(
                w, src if shapes[0] == "list" else _shaped(src, shapes[0]),
                handed if shapes[1] == "list" else _shaped(dst, shapes[1]), "a", ("b", "c"), **kw)
            exc = None
        except Exception as e:  # noqa: BLE001
            ret, exc = None, e
    finally:
        mutil.random = old
    return src, dst, w.calls, ret, exc, handed


def judge_randomly(ns, nd, evenly, maxc, choices, res, shapes=("list", "list")):
    src, dst, calls, ret, exc, handed = res
    case = dict(fn="connect_randomly", ns=ns, nd=nd, evenly=evenly,
                max_connects=None if maxc == INF else maxc, choices=choices)
    if tuple(shapes) != ("list", "list"):
        case["shapes"] = list(shapes)
    out = []

    def add(kind, msg):
        out.append(dict(prop="C18", kind=kind, cls=None, msg=f"{msg}: {case}", case=case))
    if exc is not None:
        add("raises", f"raised {exc!r} although |src| <= |dst|*max_connects")
        return out
    per_src = {s: [c for c in calls if c[0] == s] for s in src}
    for s, cs in per_src.items():
        if len(cs) != 1:
            add("source-not-connected-once", f"{s} connected {len(cs)} times")
    for c in calls:
        if c[1] not in dst:
            add("foreign-destination", f"{c[0]} connected to {c[1]}")
        if c[2] != ("a", ("b", "c")) or c[3]:
            add("wrong-attrs", f"connect called with {c[2]} {c[3]}")
        if c[0] not in src:
            add("foreign-source", f"{c[0]}")
    cnt = {d: sum(1 for c in calls if c[1] == d) for d in dst}
    if evenly and src:
        if max(cnt.values()) - min(cnt.values()) > 1:
            add("not-even", f"connections per destination {cnt}")
    if not evenly and max(cnt.values()) > maxc:
        add("above-max-connects", f"connections per destination {cnt}")
    if sorted(handed) != sorted(dst):
        # judged against the destination set as the caller sees it after the call, sources are
        # connected to entities outside it / the returned set is not a subset of it
        add("destination-set-of-the-caller-changed",
            f"the list handed in as dest_set now contains {sorted(handed)} instead of {sorted(dst)}")
    used = {d for d, n in cnt.items() if n}
    if ret is None or set(ret) != used:
        add("wrong-return", f"returned {sorted(ret) if ret is not None else None}, used {sorted(used)}")
    return out


def run_many_to_one_noattrs(ns):
    """a call without any attribute pair (only async_requests) is valid and must reach connect()"""
    src = [f"s{i}" for i in range(ns)]
    w = RecWorld()
    case = dict(fn="connect_many_to_one", ns=ns, async_requests=True, shape="noattrs")
    try:
        mutil.connect_many_to_one(w, list(src), "D", async_requests=True)
    except Exception as e:  # noqa: BLE001
        return [dict(prop="C18", kind="many-to-one-raises", cls=None, msg=f"raised {e!r}: {case}", case=case)]
    ok = [c[0] for c in w.calls] == src and all(
        c[1] == "D" and c[2] == () and c[3].get("async_requests") is True for c in w.calls)
    return [] if ok else [dict(prop="C18", kind="many-to-one-wrong", cls=None,
                               msg=f"calls {w.calls}: {case}", case=case)]


def run_many_to_one(ns, async_requests, shape="list"):
    src = [f"s{i}" for i in range(ns)]
    w = RecWorld()
    kw = dict(async_requests=True) if async_requests else {}
    # src_set is documented as an iterable: lists, tuples, sets of entities, but also
    # one-shot iterators (itertools.chain of entity lists is the idiom of mosaik's own docs)
    arg = {"list": list(src), "tuple": tuple(src), "iter": iter(src),
           "chain": itertools.chain(src[:1], src[1:]), "gen": (x for x in src)}[shape]
    out = []
    case = dict(fn="connect_many_to_one", ns=ns, async_requests=async_requests, shape=shape)
    try:
        mutil.connect_many_to_one(w, arg, "D", "a", ("b", "c"), **kw)
    except Exception as e:  # noqa: BLE001
        return [dict(prop="C18", kind="many-to-one-raises", cls=None,
                     msg=f"raised {e!r}: {case}", case=case)]
    if [c[0] for c in w.calls] != src or any(c[1] != "D" for c in w.calls):
        out.append(dict(prop="C18", kind="many-to-one-wrong", cls=None,
                        msg=f"calls {w.calls}: {case}", case=case))
    for c in w.calls:
        if c[2] != ("a", ("b", "c")) or bool(c[3].get("async_requests", False)) != async_requests:
            out.append(dict(prop="C18", kind="many-to-one-wrong-args", cls=None,
                            msg=f"call {c}: {case}", case=case))
    return out


def replay(doc):
    c = doc["case"]
    if c["fn"] == "connect_many_to_one" and c.get("shape") == "noattrs":
        v = run_many_to_one_noattrs(c["ns"])
    elif c["fn"] == "connect_many_to_one":
        v = run_many_to_one(c["ns"], c["async_requests"], c.get("shape", "list"))
    else:
        from .choices import Chooser
        maxc = INF if c["max_connects"] is None else c["max_connects"]
        ch = Chooser(c["choices"])
        shapes = tuple(c.get("shapes", ("list", "list")))
        res = run_randomly(c["ns"], c["nd"], c["evenly"], maxc, ch, shapes)
        v = judge_randomly(c["ns"], c["nd"], c["evenly"], maxc, c["choices"], res, shapes)
    for x in v:
        print("REPRODUCED", x["kind"], x["msg"][:300])
    return 1 if v else 0


def check(prop, tier):
    t0 = time.time()
    NS, ND = (5, 4) if tier == "quick" else (6, 4)
    rep = findings.Reporter("C18")
    kinds = {}
    execs = cases = nontriv = 0
    sample = None
    for ns in range(0, NS + 1):
        for nd in range(1, ND + 1):
            for evenly in (True, False):
                for maxc in ((INF,) if evenly else (1, 2, 3, INF)):
                    if not evenly and ns > nd * maxc:
                        continue
                    cases += 1
                    k = 0
                    for choices, res in all_executions(
                            lambda ch: run_randomly(ns, nd, evenly, maxc, ch)):
                        k += 1
                        execs += 1
                        for v in judge_randomly(ns, nd, evenly, maxc, choices, res):
                            kinds[v["kind"]] = kinds.get(v["kind"], 0) + 1
                            if kinds[v["kind"]] <= 5:
                                rep.report(v, dict(kind="call", module="mc.enum_c18", case=v["case"]))
                        if sample is None and ns == 3 and nd == 2 and not evenly:
                            sample = dict(ns=ns, nd=nd, evenly=evenly, max_connects=maxc,
                                          choices=choices,
                                          calls=[(c[0], c[1]) for c in res[2]],
                                          returned=sorted(res[3]) if res[3] is not None else None)
                    if k > 1:
                        nontriv += 1
    # other iterables than lists as src_set / dest_set (smaller sizes, every random outcome)
    for shapes in [(a, "list") for a in ("tuple", "set", "iter", "gen")] + \
                  [("list", b) for b in ("tuple", "set", "iter", "gen")] + [("set", "set"), ("gen", "gen")]:
        for ns in range(0, 4):
            for nd in range(1, 4):
                for evenly, maxc in ((True, INF), (False, INF), (False, 2)):
                    if not evenly and ns > nd * maxc:
                        continue
                    cases += 1
                    for choices, res in all_executions(
                            lambda ch: run_randomly(ns, nd, evenly, maxc, ch, shapes)):
                        execs += 1
                        for v in judge_randomly(ns, nd, evenly, maxc, choices, res, shapes):
                            kinds[v["kind"]] = kinds.get(v["kind"], 0) + 1
                            if kinds[v["kind"]] <= 5:
                                rep.report(v, dict(kind="call", module="mc.enum_c18", case=v["case"]))
    # the flag `evenly` given as a truthy / falsy value that is not a bool (1, 0: what a numpy
    # comparison or an integer option yields)
    for flag in (1, 0):
        for ns in range(0, 4):
            for nd in range(1, 4):
                cases += 1
                for choices, res in all_executions(
                        lambda ch: run_randomly(ns, nd, flag, INF, ch)):
                    execs += 1
                    for v in judge_randomly(ns, nd, bool(flag), INF, choices, res):
                        v["case"]["evenly"] = flag
                        kinds[v["kind"]] = kinds.get(v["kind"], 0) + 1
                        if kinds[v["kind"]] <= 5:
                            rep.report(v, dict(kind="call", module="mc.enum_c18", case=v["case"]))
    for ns in range(0, 5):
        for ar in (False, True):
          for shape in ("list", "tuple", "iter", "chain", "gen"):
            cases += 1
            execs += 1
            for v in run_many_to_one(ns, ar, shape):
                kinds[v["kind"]] = kinds.get(v["kind"], 0) + 1
                rep.report(v, dict(kind="call", module="mc.enum_c18", case=v["case"]))
    for ns in range(0, 5):
        cases += 1
        execs += 1
        for v in run_many_to_one_noattrs(ns):
            kinds[v["kind"]] = kinds.get(v["kind"], 0) + 1
            rep.report(v, dict(kind="call", module="mc.enum_c18", case=v["case"]))
    rc = rep.finish()
    cov = dict(
        states=execs, transitions=execs, traces_validated_against_impl=execs,
        evaluations=execs, distinct_nontrivial=nontriv,
        rule="one evaluation = one call of the helper under one complete sequence of random "
             "outcomes; a case (sizes, flags) is non-trivial when it has more than one outcome",
        samples=[sample], exhaustive=True, cases=cases,
        bounds=dict(max_sources=NS, max_destinations=ND, max_connects=[1, 2, 3, "inf"]),
        violation_kinds=kinds,
    )
    evidence.write("C18", tier, "model_checking", cov,
                   ["mosaik.util.random is the only source of randomness of the helpers "
                    "(any other attribute of the enumerating source raises)",
                    "world.connect is a recording stub"],
                   time.time() - t0, len(rep.violations))
    print(f"C18 {tier}: cases={cases} executions={execs} violations={len(rep.violations)} "
          f"wall={time.time() - t0:.1f}s")
    return rc
