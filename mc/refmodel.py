"""Reference semantics of grouped (tiered) time, written from
docs/scenario-definition.rst and docs/scheduler.rst.  Deliberately does not
import anything from mosaik.

* a simulator in a group at depth D has times that are D-tuples, compared
  lexicographically; (t,0,..,0) is the start of time step t;
* a connection p->c whose nearest common group has depth g maps an output time
  tau of p to  arrive(tau) = tau[:g] with [0]+=shift and [g-1]+=1 if weak,
  zero-padded to depth(c)   ("when a connection leaves a group the sub-time is
  forgotten; a weak connection increases the sub-time of the closest shared
  group").
"""
from __future__ import annotations

import itertools


def zero(n):
    return (0,) * n


class Topo:
    def __init__(self, scen):
        self.scen = scen
        self.gparent = dict(scen.get("groups", {}))
        self.sims = {s["sid"]: s for s in scen["sims"]}
        self.until = scen["until"]
        # (a `rejected` connection is a connect() call that mosaik refuses and the script handles:
        # it does not exist)
        self.conns = [c for c in scen["conns"] if not c.get("rejected")]
        self.max_loop = scen.get("max_loop", 100)
        self._depth = {sid: len(self.gpath(s.get("group"))) for sid, s in self.sims.items()}
        self._cd = {}

    def gpath(self, g):
        """groups from the root (None) down to g"""
        p = []
        while True:
            p.append(g)
            if g is None:
                break
            g = self.gparent[g]
        return p[::-1]

    def depth(self, sid):
        return self._depth[sid]

    def common_depth(self, a, b):
        key = (a, b)
        if key not in self._cd:
            pa = self.gpath(self.sims[a].get("group"))
            pb = self.gpath(self.sims[b].get("group"))
            n = 0
            for x, y in zip(pa, pb):
                if x != y:
                    break
                n += 1
            self._cd[key] = n
        return self._cd[key]

    def arrive(self, conn, tt):
        """tiered time at conn['dst'] of an output with tiered time tt at conn['src']"""
        g = self.common_depth(conn["src"], conn["dst"])
        out = list(tt[:g])
        out[0] += conn.get("shift", 0) or 0
        if conn.get("weak"):
            out[g - 1] += 1
        out += [0] * (self.depth(conn["dst"]) - g)
        return tuple(out)

    def adapt(self, src, dst, tt):
        """tt of src seen in dst's group without any delay"""
        g = self.common_depth(src, dst)
        return tuple(tt[:g]) + zero(self.depth(dst) - g)

    @staticmethod
    def is_trigger(conn):
        if conn.get("deid") == "k":        # child entity of model K: roles swapped
            return conn.get("dattr") == "mi"
        return conn.get("dattr") in ("ti", "ti2")

    @staticmethod
    def is_persistent(conn):
        if conn.get("seid") == "k":        # child entity of model K: `eo` persistent, `po` not
            return conn.get("sattr") == "eo"
        return conn.get("sattr") == "po"

    def data_conns(self):
        return [(i, c) for i, c in enumerate(self.conns) if c.get("sattr")]

    def trigger_paths(self):
        """{(q, s): [list of connection sequences]}: all simple paths from q to s along which
        every connection ends in a trigger input (a step of q can cause a step of s)"""
        if getattr(self, "_tpaths", None) is not None:
            return self._tpaths
        out = {}
        trig = [c for c in self.conns if c.get("sattr") and self.is_trigger(c)]

        def walk(path, seen):
            last = path[-1]["dst"]
            out.setdefault((path[0]["src"], last), []).append(list(path))
            for c in trig:
                if c["src"] == last and c["dst"] not in seen:
                    walk(path + [c], seen | {c["dst"]})
        for c in trig:
            if c["src"] != c["dst"]:
                walk([c], {c["src"], c["dst"]})
        self._tpaths = out
        return out

    def earliest_trigger(self, q, s, tt):
        """earliest integer time at which a step of q at tuple tt can trigger s (None: cannot)"""
        best = None
        for path in self.trigger_paths().get((q, s), []):
            x = tt
            for c in path:
                x = self.arrive(c, x)
            if best is None or x[0] < best:
                best = x[0]
        return best

    def earliest_trigger_tuple(self, q, s, tt):
        """earliest tiered time at which a step of q at tt can trigger s (None: cannot)"""
        best = None
        for path in self.trigger_paths().get((q, s), []):
            x = tt
            for c in path:
                x = self.arrive(c, x)
            if best is None or x < best:
                best = x
        return best

    def group_reentry(self):
        """Is there a group G with a weak connection inside and two simulators of G that are
        connected by a path through a simulator outside G?  (structural classifier of F21)"""
        import networkx as nx
        g = nx.DiGraph()
        g.add_nodes_from(self.sims)
        for c in self.conns:
            g.add_edge(c["src"], c["dst"])
        for w in self.conns:
            if not w.get("weak"):
                continue
            d = self.common_depth(w["src"], w["dst"])
            if d < 2:
                continue
            prefix = self.gpath(self.sims[w["src"]].get("group"))[:d]
            inside = {s for s in self.sims if self.gpath(self.sims[s].get("group"))[:d] == prefix}
            outside = set(self.sims) - inside
            for o in outside:
                if any(nx.has_path(g, p, o) for p in inside) and any(nx.has_path(g, o, q) for q in inside):
                    return True
        return False

    # -- reference cycle check (C06) -------------------------------------------
    def hop_resolves(self, conn, cycle_sims):
        """Does this connection resolve a cycle through `cycle_sims`?"""
        if conn.get("shift"):
            return True
        if conn.get("weak"):
            g = self.common_depth(conn["src"], conn["dst"])
            common = self.gpath(self.sims[conn["src"]].get("group"))[:g]
            for s in cycle_sims:
                if self.gpath(self.sims[s].get("group"))[:g] != common:
                    return False
            return True
        return False

    def unresolved_cycle(self):
        """Return a list of sids forming an unresolved cycle, or None."""
        import networkx as nx
        g = nx.DiGraph()
        g.add_nodes_from(self.sims)
        hops = {}
        for c in self.conns:
            hops.setdefault((c["src"], c["dst"]), []).append(c)
            if c.get("async"):
                # the async-request edge is an additional undelayed connection
                hops[(c["src"], c["dst"])].append({"src": c["src"], "dst": c["dst"]})
            g.add_edge(c["src"], c["dst"])
        for cyc in nx.simple_cycles(g):
            n = len(cyc)
            ok = False
            for i in range(n):
                a, b = cyc[i], cyc[(i + 1) % n]
                # a hop is unresolved if SOME parallel connection on it is
                # neither shifted nor (weak and the cycle stays in the group)
                # -- the async-request edge counts as a plain connection
                if all(self.hop_resolves(c, cyc) for c in hops[(a, b)]):
                    ok = True
                    break
            if not ok:
                return list(cyc)
        return None


def perms(xs):
    return list(itertools.permutations(xs))
