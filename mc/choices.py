"""Exhaustive enumeration of the outcomes of a function that draws from a finite
nondeterministic source: depth-first over choice sequences, re-executing the prefix."""
from __future__ import annotations


class Chooser:
    def __init__(self, prefix):
        self.prefix = list(prefix)
        self.taken = []      # (choice, n_options)

    def __call__(self, n):
        i = len(self.taken)
        c = self.prefix[i] if i < len(self.prefix) else 0
        if c >= n:
            raise RuntimeError(f"divergence: choice {c} of {n} at point {i}")
        self.taken.append((c, n))
        return c


def all_executions(fn, max_exec=10 ** 7):
    """fn(chooser) -> result; yields (choices, result) for every choice sequence."""
    stack = [[]]
    n = 0
    while stack:
        p = stack.pop()
        ch = Chooser(p)
        res = fn(ch)
        n += 1
        if n > max_exec:
            raise RuntimeError("execution cap hit")
        yield [c for c, _ in ch.taken], res
        for i in range(len(p), len(ch.taken)):
            c, k = ch.taken[i]
            for alt in range(k - 1, 0, -1):
                stack.append([x for x, _ in ch.taken[:i]] + [alt])
