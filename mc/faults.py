"""C13 (runtime validation of replies) and C14 (fault containment, clean shutdown):
fault enumeration inside the schedule exploration.

One fault per run: for every simulator of a few catalogue topologies, at every request
index, every value of the fault alphabet -- and for each of them *all* reply-delivery
schedules with <= d early deliveries, so that other replies land during the unwinding and
during shutdown().
"""
from __future__ import annotations

import asyncio
import copy
import json
import multiprocessing as mp
import os
import time

from . import env, evidence, findings, scenarios
from .scenarios import T, E, H, C

NEXT_KINDS = ["none", "same", "prev", "neg", "frac", "float", "str", "npfrac", "bool"]
LOCAL_ONLY_KINDS = ("npfrac",)      # numpy scalars cannot be sent over a (JSON) connection
TIME_KINDS = ["prev", "neg"]

C13_TOPOS = {
    "chain3_T": scenarios.CATALOGUE["chain3_T"],
    "E_chain3_self": scenarios.CATALOGUE["E_chain3_self"],
    "T_to_H_trigger": scenarios.CATALOGUE["T_to_H_trigger"],
    "weak_loop": scenarios.CATALOGUE["weak_loop"],
    # every outgoing connection of the producer is time-shifted
    "shift2_only_T": dict(until=4, sims=[T("A"), T("B")],
                          conns=[C("A", "B", "po", "mi", shift=2, init=True)]),
    "shift2_only_E": dict(until=4, sims=[E("A", init_event=0, next=[1, 1, 1], emit_default=0), E("B")],
                          conns=[C("A", "B", "eo", "ti", shift=2)]),
}
C14_TOPOS = {
    "chain_TT": dict(until=2, sims=[T("A"), T("B")], conns=[C("A", "B", "po", "mi")]),
    "fan_TET": dict(until=2, sims=[T("A"), E("B", emit_default=0), E("Z")],
                    conns=[C("A", "B", "po", "ti"), C("B", "Z", "eo", "ti")]),
    "indep3": dict(until=2, sims=[T("A"), T("B"), T("X")], conns=[C("A", "B", "po", "mi")]),
    # an in-process simulator of an old API version (requests pass through the version adapters)
    "chain_old": dict(until=2, sims=[T("A", cls="Ver_kw_opt", api_version="2.2"),
                                     T("B", cls="Ver_none_a2", api_version="2")],
                      conns=[C("A", "B", "po", "mi")]),
    # plain (non-generator) in-process simulators, event-based/hybrid, run synchronously
    "plain_EH": dict(until=3, sims=[E("A", cls="PlainStub", init_event=0, next=[1, 1], emit_default=0),
                                    H("B", cls="PlainStub", next_default=1), T("X", cls="PlainStub")],
                     conns=[C("A", "B", "eo", "ti")]),
    # an agent with a request of its own to mosaik (get_data for an attribute that is not in
    # the cache, so that mosaik has to ask A) -- the fault can hit while that is outstanding
    "async_agent": dict(until=2, sims=[H("A", next_default=1),
                                       T("M", **{"async": {"0": [("get", "A.e", "eo")]}}), T("X")],
                        conns=[dict(C("A", "M", "po", "mi"), **{"async": True})]),
}


def _steps_of(scen, sid):
    """how many steps sid performs in a fault-free default run"""
    from .explorer import run_one
    x = run_one(scen, dict(lazy=True, cache=True), hashing=False)
    return sum(1 for e in x.run.trace if e[0] == "B" and e[1] == sid), \
        any(c["src"] == sid and c.get("sattr") for c in scen["conns"])


def c13_cases(tier):
    out = []
    for name, scen in C13_TOPOS.items():
        for s in scen["sims"]:
            sid = s["sid"]
            nsteps, has_out = _steps_of(scen, sid)
            for k in range(min(nsteps, 3 if tier == "quick" else 4)):
                for kind in NEXT_KINDS:
                    if kind == "none" and s["type"] != "time-based":
                        continue      # legal for event-based / hybrid simulators
                    sc = copy.deepcopy(scen)
                    next(x for x in sc["sims"] if x["sid"] == sid)["bad_next"] = {str(k): kind}
                    out.append((f"{name}/{sid}/next[{k}]={kind}", sc, dict(sid=sid, k=k, what="next", kind=kind)))
                if has_out:
                    for kind in TIME_KINDS:
                        sc = copy.deepcopy(scen)
                        next(x for x in sc["sims"] if x["sid"] == sid)["bad_time"] = {str(k): kind}
                        out.append((f"{name}/{sid}/time[{k}]={kind}", sc, dict(sid=sid, k=k, what="time", kind=kind)))
    return out


def c13_post(x, fault):
    """extra verdicts of one execution with a malformed reply"""
    out = []
    sid, k = fault["sid"], fault["k"]
    tr = x.run.trace
    tag = "S" if fault["what"] == "next" else "D"
    idx = next((i for i, e in enumerate(tr) if e[0] == tag and e[1] == sid and e[2] == k), None)
    if idx is None:
        return out        # the malformed reply was never produced in this schedule

    def add(kind, msg, cls=None):
        out.append(dict(prop="C13", kind=kind, cls=cls, sim=sid,
                        msg=f"{msg} [malformed {fault['what']}={fault['kind']} of {sid} at its step {k}]"))
    res = x.result
    if res[0] == "ok":
        add("malformed-reply-accepted", "run() returned normally")
    elif res[0] in ("deadlock", "livelock"):
        add("hang-after-malformed-reply", f"run() -> {res[0]}")
    elif res[0] == "exc":
        if sid not in res[2]:
            cls = "bare-assertion" if res[1] == "AssertionError" else None
            add("error-does-not-identify-simulator", f"run() raised {res[1]}({res[2][:80]!r})", cls)
    later = [e for e in tr[idx + 1:] if e[0] == "B" and e[1] == sid]
    if later:
        add("stepped-after-malformed-reply", f"{sid} stepped again at {[e[3] for e in later]}")
    for v in x.viol:
        if v["prop"] in ("C01", "C02", "C03") and v.get("at", 0) > idx + 1 and v.get("cls") is None \
                and v["kind"] != "lost-step":
            add("corrupts-later-steps", f"[{v['prop']}/{v['kind']}] {v['msg']}")
    return out


# ---- C14 ---------------------------------------------------------------------------------------
FAULT_KINDS_LOCAL = ["raise", "raise_type", "raise_value", "raise_conn", "raise_exit"]
FAULT_KINDS_MEM = ["raise", "close", "die", "die_after"]


def c14_cases(tier):
    import contextlib
    import io
    with contextlib.redirect_stdout(io.StringIO()):       # (deprecation notes of mosaik_api_v3)
        return _c14_cases(tier)


def _c14_cases(tier):
    out = []
    for name, scen in C14_TOPOS.items():
        plain = any(s.get("cls") == "PlainStub" for s in scen["sims"])
        for tr in (("local",) if plain else ("local", "mem")):
            for s in scen["sims"]:
                sid = s["sid"]
                nsteps, has_out = _steps_of(scen, sid)
                reqs = [("setup_done", 0)]
                for k in range(nsteps):
                    reqs.append(("step", k))
                    if has_out:
                        reqs.append(("get_data", k))
                for k_, acts in (s.get("async") or {}).items():
                    if tr == "mem" and any(a[0] == "get" for a in acts):
                        reqs.append(("async", int(k_)))
                # the simulator fails while it is being stopped (its finalize() raises)
                if not plain:
                    sc = copy.deepcopy(scen)
                    next(x for x in sc["sims"] if x["sid"] == sid)["fault"] = dict(req="finalize", k=0, kind="raise")
                    out.append((f"{name}/{tr}/{sid}/finalize[0]/raise", sc,
                                dict(sid=sid, req="finalize", k=0, kind="raise", transport=tr)))
                for req, k in reqs:
                    for fk in ((FAULT_KINDS_LOCAL + (["raise_stop"] if plain else []))
                               if tr == "local" else FAULT_KINDS_MEM):
                        if req == "async" and fk not in ("close", "die"):
                            continue
                        sc = copy.deepcopy(scen)
                        next(x for x in sc["sims"] if x["sid"] == sid)["fault"] = dict(req=req, k=k, kind=fk)
                        out.append((f"{name}/{tr}/{sid}/{req}[{k}]/{fk}", sc,
                                    dict(sid=sid, req=req, k=k, kind=fk, transport=tr)))
    return out


class InjectedFault(RuntimeError):
    pass


def inject(run, stub, f):
    """generator run inside the stub's handler at the fault point"""
    kind = f["kind"]
    if kind.startswith("raise"):
        run.fault_done = True
    if kind == "raise":
        raise InjectedFault(f"injected failure in {stub.sid}")
    if kind == "raise_type":
        # exception types that mosaik itself handles around a request (TypeError: JSON
        # serialisation diagnosis in SimRunner.step) must not make a simulator's failure vanish
        raise TypeError(f"injected TypeError in {stub.sid}")
    if kind == "raise_value":
        # ... nor ValueError (unpacking of malformed request tuples in the version adapters)
        raise ValueError(f"injected ValueError in {stub.sid}")
    if kind == "raise_exit":
        # an in-process simulator that calls sys.exit(): a BaseException, which asyncio
        # propagates out of the loop from whatever task is being stepped
        raise SystemExit(3)
    if kind == "raise_conn":
        raise ConnectionAbortedError(f"injected ConnectionError in {stub.sid}")
    ch = getattr(stub, "_mem_channel", None)
    if kind == "die_after":
        # the process answers this request and exits right afterwards (dies while idle)
        ch._writer.die_after_write = stub._mem_task
        stub.gone = True
        stub.died = True
        return
    if kind in ("close", "die") and run.gated and run.cfg.get("fault_gate"):
        # *when* the fault happens, relative to everything else in flight, is a choice
        yield run.loop.gate((stub.sid, "fault", f["k"]))
    if kind in ("close", "die"):
        run.fault_done = True
    if kind == "close":
        # the simulator closes its connection before replying, then goes away
        ch._writer.close()
        stub.gone = True
        raise asyncio.CancelledError()
    if kind == "die":
        # the process dies: both directions see EOF, nothing is finalized
        ch._writer.close()
        stub.gone = True
        stub.died = True
        raise asyncio.CancelledError()
    raise ValueError(kind)
    yield  # pragma: no cover


def _task_kind(task):
    """'connection' if the task belongs to the handling of a remote connection (its coroutine is a
    method of a RemoteProxy or Channel), else 'scheduler'.  Structural, so that renaming a
    coroutine does not change the classification."""
    try:
        from mosaik.proxies import RemoteProxy
    except Exception:  # noqa: BLE001
        RemoteProxy = ()
    from mosaik_api_v3.connection import Channel
    co = task.get_coro()
    fr = getattr(co, "cr_frame", None) or getattr(co, "gi_frame", None)
    # the task *is* a method of the proxy/channel (request handler, stream reader); a simulator
    # process that merely waits inside a remote request is a scheduler task
    if fr is not None and isinstance(fr.f_locals.get("self"), (RemoteProxy, Channel)):
        return "connection"
    return "scheduler"


def pending_mosaik_tasks(run):
    out = []
    sim_side = {id(getattr(s, "_mem_channel", None)) for s in run.stubs.values()}
    remote = set(map(id, run.remote_tasks))
    for t in run.loop.pending_at_close or []:
        if id(t) in remote:
            continue
        co = t.get_coro()
        qn = getattr(co, "__qualname__", type(co).__name__)
        fr = getattr(co, "cr_frame", None)
        if fr is not None and id(fr.f_locals.get("self")) in sim_side:
            continue      # the simulator side's own reader task
        if qn.startswith(("get_wrapper", "run_simulator", "remote_main")):
            continue
        out.append((qn, _task_kind(t)))
    return sorted(out)


def shutdown_verdicts(x, prop, exempt):
    out = []
    run = x.run

    def add(kind, msg, cls=None):
        out.append(dict(prop=prop, kind=kind, cls=cls, msg=msg))
    fin = {}
    for e in run.trace:
        if e[0] == "F":
            fin[e[1]] = fin.get(e[1], 0) + 1
    wire = {sim.sid: w_m.stop_requests for (sim, (r_m, w_m), _, _) in run.channels}
    for sid in run.stubs:
        n = fin.get(sid, 0)
        if sid in wire:
            # remote: the simulator may still be busy with a request when mosaik shuts down; what
            # mosaik owes it is exactly one stop request on the wire (and at most one finalize)
            if n > 1:
                add("finalize-count", f"{sid} finalized {n} times")
            n = wire[sid]
        if sid == exempt:
            if n > 1:
                add("finalize-count", f"failing simulator {sid} finalized {n} times")
            continue
        if n != 1:
            add("finalize-count", f"{sid} received finalize/stop {n} times")
    late = [e for e in run.trace if e[0] == "X" and e[2] == "request-after-finalize"]
    if late:
        add("request-after-finalize",
            f"{late[0][1]} received {late[0][3]} (its step {late[0][4]}) after it was finalized",
            cls="siblings-keep-running-after-failure")
    if not run.closed_by_mosaik:
        add("loop-not-closed", "world.loop is not closed after run()")
    pend = pending_mosaik_tasks(run)
    if pend:
        add("pending-tasks-at-close",
            f"tasks still pending when the loop was closed: {[p[0] for p in pend][:6]}",
            cls="siblings-keep-running-after-failure"
            if all(kind == "scheduler" for _, kind in pend) else None)
    for (sim, (r_m, w_m), (r_s, w_s), ch_m) in run.channels:
        if not (w_m.closed or r_m._eof):
            add("channel-left-open", f"connection to {sim.sid} neither closed nor at EOF")
        elif run.closed_by_mosaik and not getattr(w_m, "close_called", True):
            add("socket-not-closed", f"mosaik never closed its end of the connection to {sim.sid} "
                                     f"(the peer is gone, the descriptor stays open)")
    return out


def c14_post(x, fault):
    out = []
    sid = fault["sid"]
    tr = x.run.trace
    idx = next((i for i, e in enumerate(tr) if e[0] == "X" and e[1] == sid and e[2] == "fault"), None)
    if idx is None:
        return out

    def add(kind, msg, cls=None):
        out.append(dict(prop="C14", kind=kind, cls=cls, sim=sid,
                        msg=f"{msg} [{fault['kind']} in {fault['req']}[{fault['k']}] of {sid}, "
                            f"{fault['transport']}]"))
    res = x.result
    logged = any(lv == "ERROR" for lv, _ in x.run.logs)
    if res[0] in ("deadlock", "livelock"):
        add("hang-after-fault", f"run() -> {res}")
    elif res[0] == "ok":
        # a process that exits after answering its *last* request has not failed as far as the
        # run is concerned; a remote failure reply is logged and run() returns
        # (a remote simulator whose finalize() fails: the stop request is not answered by design,
        # mosaik cannot know)
        if fault["kind"] != "die_after" and \
                not (fault["req"] == "finalize" and fault["transport"] == "mem") and \
                not (fault["kind"] == "raise" and fault["transport"] == "mem" and logged):
            add("fault-swallowed", "run() returned normally without an error"
                + (" (error logged)" if logged else ""))
    if x.run.stuck_after_fault is not None and res[0] not in ("deadlock", "livelock"):
        add("waits-for-survivor-after-fault",
            f"after the fault run() only went on when a surviving simulator answered (quiescent "
            f"loop, no timer, pending replies {x.run.stuck_after_fault}): with a survivor that is "
            f"stuck in its request run() would hang")
    second = [e for e in tr if e[0] == "X" and e[2] == "second-shutdown-raised"]
    if second:
        add("second-shutdown-raised", f"a second world.shutdown() raised {second[0][3]}")
    for v in shutdown_verdicts(x, "C14", exempt=sid):
        v["msg"] += f" [{fault['kind']} in {fault['req']}[{fault['k']}] of {sid}, {fault['transport']}]"
        v["sim"] = sid
        out.append(v)
    if fault["kind"] == "raise_exit" and res[0] == "exc" and res[1] == "SystemExit":
        # F27: the error does come out of run(), but asyncio re-raises a SystemExit out of the
        # loop from whatever task is being stepped, also while shutdown() stops the simulators
        for v in out:
            if v["cls"] is None and v["kind"] in ("finalize-count", "loop-not-closed", "channel-left-open",
                                                  "socket-not-closed", "pending-tasks-at-close",
                                                  "second-shutdown-raised"):
                v["cls"] = "base-exception-out-of-the-loop"
    return out


# ---- driver ------------------------------------------------------------------------------------
def _work(job):
    from . import explorer
    from .harness import Run
    prop, name, scen, fault, cfg, budget, cap = job
    post = (lambda x: c13_post(x, fault)) if prop == "C13" else (lambda x: c14_post(x, fault))
    old = Run.inject_fault
    Run.inject_fault = lambda self, stub, f: inject(self, stub, f)
    import contextlib
    import io
    import sys
    quiet = contextlib.redirect_stdout(io.StringIO())     # (mosaik_api_v3 prints deprecation notes)
    quiet.__enter__()
    try:
        try:
            r = explorer.explore(scen, cfg, budget=budget, max_exec=cap, post=post,
                                 timer_choice=(prop == "C14"))
        except explorer.UnsoundMerge:
            # no merging for this case (see sched._work)
            r = explorer.explore(scen, cfg, budget=budget, max_exec=cap, post=post,
                                 timer_choice=(prop == "C14"), stateless=True)
            r["stateless_fallback"] = True
    except Exception as e:  # noqa: BLE001
        import traceback
        return dict(error=repr(e)[:300] + traceback.format_exc()[-800:], name=name)
    finally:
        quiet.__exit__(None, None, None)
        Run.inject_fault = old
    r.update(name=name, scen=scen, cfg=cfg, fault=fault)
    return r


def post_replay(x, prop, fault):
    return c13_post(x, fault) if prop == "C13" else c14_post(x, fault)


def c13_realtime_cases(only=None):
    """malformed replies in real-time mode while an external event is pending for the simulator
    (the only way a time-based simulator has a foreign entry in its step queue)"""
    from . import rt
    from .choices import Chooser
    out = []
    for kind in ("none", "same", "float"):
        for k in (0, 2, 3):       # steps 2 and 3 begin after the event has been set (at 0.25 s)
            case = dict(kind=kind, k=k)
            if only is not None and case != only:
                continue
            scen = dict(rt_factor=1, until=5,
                        sims=[T("A", set_events=True, bad_next={str(k): kind})], conns=[],
                        events=[("A", 0.25, "until-1")])
            run, res, viol, lats = rt.execute(scen, False, Chooser([]), [0])
            fault = dict(sid="A", k=k, what="next", kind=kind)

            class X:
                pass
            x = X()
            x.run, x.result, x.viol = run, res, viol
            for v in c13_post(x, fault):
                v = dict(v, msg=f"real-time, event pending: {v['msg']}", case=case)
                out.append(v)
    return out


def real_process_supplement(rep):
    """Crash-point enumeration against a real sub-process simulator over real sockets
    (findings/realproc): the process exits while idle, in setup_done, in step, in get_data, and while a request of
    its own to mosaik is outstanding.
    Timing based (wall-clock bound of 8 s per run), exhaustive only in the crash points; it is
    reported separately and is not part of the exhaustive-schedule claim."""
    import subprocess
    import sys
    script = os.path.join(env.VERIF_DIR, "findings", "realproc", "run.py")
    out = {}
    for point in ("idle_after_create", "setup_done", "step", "get_data", "async_outstanding"):
        try:
            r = subprocess.run([sys.executable, script, point], capture_output=True, text=True,
                               timeout=120, env=dict(os.environ, VERIF_REPO=env.REPO))
            line = (r.stdout.strip().splitlines() or ["no output"])[-1]
            ok = r.returncode == 0
        except subprocess.TimeoutExpired:
            line, ok = "timeout after 120 s", False
        out[point] = line
        if not ok:
            rep.report(dict(prop="C14", kind="real-process-fault-not-contained", cls=None,
                            msg=f"real sub-process simulator dying at '{point}': {line}"),
                       dict(kind="call", module="mc.faults", point=point))
    return out


def replay(doc):
    import subprocess
    import sys
    if doc.get("rt_case"):
        v = c13_realtime_cases(only=doc["rt_case"])
        for x in v:
            print("REPRODUCED", x["kind"], x["msg"][:300])
        return 1 if v else 0
    script = os.path.join(env.VERIF_DIR, "findings", "realproc", "run.py")
    r = subprocess.run([sys.executable, script, doc["point"]], text=True,
                       env=dict(os.environ, VERIF_REPO=env.REPO))
    return 1 if r.returncode else 0


def check(prop, tier):
    t0 = time.time()
    jobs = []
    if prop == "C13":
        for name, scen, fault in c13_cases(tier):
            for tr in (("local", "mem") if tier == "thorough" else ("local",)):
                if tr == "mem" and fault["kind"] in LOCAL_ONLY_KINDS:
                    continue
                jobs.append((prop, name + "/" + tr, scen, fault,
                             dict(lazy=True, cache=True, transport=tr),
                             1, 2500))
        for name, scen, fault in c13_cases(tier):
            if fault["what"] == "time" or fault["k"] == 0:
                jobs.append((prop, name + "/local/nocache", scen, fault,
                             dict(lazy=True, cache=False, transport="local"), 0, 1500))
            if fault["k"] <= 1 and not scen.get("groups"):
                jobs.append((prop, name + "/local/debug", scen, fault,
                             dict(lazy=True, cache=True, debug=True, transport="local"), 0, 1500))
        if tier == "quick":
            for name, scen, fault in c13_cases(tier):
                if fault["k"] == 0 and fault["kind"] not in LOCAL_ONLY_KINDS:
                    jobs.append((prop, name + "/mem", scen, fault,
                                 dict(lazy=True, cache=True, transport="mem"), 0, 1500))
    else:
        d = 1 if tier == "quick" else 2
        for name, scen, fault in c14_cases(tier):
            # fault_gate: *when* a close/die happens relative to the replies in flight is a
            # choice of the explorer as well (thorough tier; quick: the topology with requests
            # of the simulators' own)
            fg = dict(fault_gate=True) if (tier == "thorough" or name.startswith("async_agent")) \
                and fault["transport"] == "mem" else {}
            if name.startswith("plain_EH"):
                fg = dict(sync="all")
            # the caller's own `finally: world.shutdown()` after run() must stop nobody twice
            fg["double_shutdown"] = True
            jobs.append((prop, name, scen, fault,
                         dict(lazy=True, cache=True, transport=fault["transport"], **fg), d, 4000))
            if fault["transport"] == "mem" and fault["kind"] != "raise":
                jobs.append((prop, name + "/silent-writes", scen, fault,
                             dict(lazy=True, cache=True, transport="mem", lost_write="silent", **fg),
                             d, 4000))
            if fault["kind"] in ("raise", "die", "close"):
                # debug mode wraps the scheduler's functions
                jobs.append((prop, name + "/debug", scen, fault,
                             dict(lazy=True, cache=True, debug=True, transport=fault["transport"]),
                             0, 2000))
    rep = findings.Reporter(prop)
    tot = dict(execs=0, states=0, trans=0, merges=0, capped=0, jobs=0)
    outcomes = {}
    sample = None
    nproc = int(os.environ.get("VERIF_PROCS", "16"))
    with mp.get_context("fork").Pool(nproc) as pool:
        for r in pool.imap_unordered(_work, jobs, chunksize=1):
            if r.get("error"):
                print("MACHINERY-ERROR", r["name"], r["error"])
                return 2
            tot["jobs"] += 1
            tot["execs"] += r["execs"]
            tot["states"] += r["states"]
            tot["trans"] += r["transitions"]
            tot["merges"] += r["merges"]
            tot["capped"] += bool(r["capped"])
            for k, n in r["outcomes"].items():
                kk = ":".join(k.split(":")[:2])
                outcomes[kk] = outcomes.get(kk, 0) + n
            if sample is None and r["execs"] > 3:
                sample = dict(case=r["name"], **r["sample"])
            for v in r["viols"]:
                if v["prop"] != prop:
                    continue
                v = dict(v, msg=f"{r['name']}: {v['msg']}")
                rep.report(v, dict(kind="schedule", scenario=r["scen"], cfg=r["cfg"], name=r["name"],
                                   choices=v.get("choices"), names=v.get("names"),
                                   post=dict(module="mc.faults", func="post_replay",
                                             args=[prop, r["fault"]]),
                                   inject="mc.faults"))
    if prop == "C13":
        for v in c13_realtime_cases():
            rep.report(v, dict(kind="call", module="mc.faults", rt_case=v["case"]))
            tot["jobs"] += 1
    realproc = None
    if prop == "C14" and tier == "thorough":
        realproc = real_process_supplement(rep)
    rc = rep.finish()
    cov = dict(
        real_process_supplement=realproc,
        evaluations=tot["execs"], distinct_nontrivial=tot["jobs"],
        rule="one evaluation = one complete execution (fault injected at one request of one "
             "simulator, one reply-delivery schedule); distinct = (topology, simulator, request "
             "index, fault kind, transport) combinations",
        samples=[sample], states=tot["states"], transitions=tot["trans"],
        traces_validated_against_impl=tot["execs"], merges_validated=tot["merges"],
        fault_cases=tot["jobs"], capped_cases=tot["capped"], exhaustive=tot["capped"] == 0,
        outcomes=outcomes, known_findings_hit={k: v[1] for k, v in rep.known_hits.items()},
        deviation_bound=1 if (prop == "C13" or tier == "quick") else 2,
    )
    evidence.write(prop, tier, "fault_enumeration", cov,
                   ["one fault per run",
                    "remote transport = in-memory stream pair running the real Channel / RemoteProxy / "
                    "mosaik_api_v3 code; real sockets and processes are not explored",
                    "'process dies' = EOF in both directions and the simulator task ends without finalize"],
                   time.time() - t0, len(rep.violations))
    print(f"{prop} {tier}: fault cases={tot['jobs']} execs={tot['execs']} states={tot['states']} "
          f"capped={tot['capped']} violations={len(rep.violations)} "
          f"known={sum(v[1] for v in rep.known_hits.values())} wall={time.time() - t0:.1f}s")
    return rc
