"""C06 -- cycle detection is exact: bounded-exhaustive enumeration of connection
multigraphs over <= 3 simulators placed in every combination of the groups
{root, g, g2 (sibling of g), h (inside g)}, every set of <= k connections of kind
plain / time-shifted / weak (where connect() accepts it), self-connections
included, up to renaming of simulators; world.run() against an independent
reference (simple-cycle enumeration with networkx).
"""
from __future__ import annotations

import itertools
import multiprocessing as mp
import os
import re
import signal
import time

from . import env, evidence, findings
from .refmodel import Topo

GROUPS = {"g": None, "g2": None, "h": "g"}
PLACES = [None, "g", "g2", "h"]
SIDS = ["A", "B", "C", "D"]


def _cd(a, b):
    def path(g):
        p = []
        while True:
            p.append(g)
            if g is None:
                break
            g = GROUPS[g]
        return p[::-1]
    n = 0
    for x, y in zip(path(a), path(b)):
        if x != y:
            break
        n += 1
    return n


def graphs(n, k, with_async=False, with_sw=False):
    """canonical representatives (up to renaming of simulators) of all
    (placement, set of <=k distinct (src, dst, kind)) with >= 1 connection"""
    sids = SIDS[:n]
    seen = set()
    perms = list(itertools.permutations(range(n)))
    for place in itertools.product(range(len(PLACES)), repeat=n):
        opts = []
        for a in range(n):
            for b in range(n):
                kinds = ["p", "s"]
                if _cd(PLACES[place[a]], PLACES[place[b]]) >= 2:
                    kinds.append("w")
                    if with_sw:
                        kinds.append("sw")      # ONE connection that is weak and time-shifted
                if with_async:              # (also between two entities of ONE simulator)
                    kinds += ["a", "as"]        # async with a plain / a time-shifted data flow
                    if "w" in kinds:
                        kinds.append("aw")
                for kd in kinds:
                    opts.append((a, b, kd))
        for m in range(1, k + 1):
            for cs in itertools.combinations(opts, m):
                if with_async and not any(c[2].startswith("a") for c in cs):
                    continue
                if with_sw and not any(c[2] == "sw" for c in cs):
                    continue
                # every simulator must take part (smaller n covers the rest)
                used = {c[0] for c in cs} | {c[1] for c in cs}
                if len(used) < n:
                    continue
                key = min(
                    (tuple(place[p.index(i)] for i in range(n)),
                     tuple(sorted((p[a], p[b], kd) for a, b, kd in cs)))
                    for p in perms)
                if key in seen:
                    continue
                seen.add(key)
                yield place, cs


def motif4():
    """two groups with two simulators each: in each group a loop closed by a weak connection plus
    a parallel plain back edge, the groups coupled into a ring; every edge varied over its kinds;
    groups placed as siblings, nested, and identical"""
    base = [(0, 1), (1, 0), (2, 3), (3, 2), (1, 2), (3, 0)]
    for place in ((1, 1, 2, 2), (1, 1, 3, 3), (1, 1, 1, 1), (3, 3, 1, 1)):
        opts = []
        for (a, b) in base:
            kinds = ["p", "s"]
            if _cd(PLACES[place[a]], PLACES[place[b]]) >= 2:
                kinds.append("w")
            opts.append([(a, b, k) for k in kinds])
        for cs in itertools.product(*opts):
            yield place, cs


def sw_rings():
    """rings A -> B -> C -> A with A, B in one group and C inside / outside it, the first edge of
    every kind including weak+time-shifted, an optional back edge B -> A"""
    for place in ((1, 1, 0), (1, 1, 2), (3, 3, 1), (1, 1, 1), (3, 3, 3), (3, 3, 0)):
        for k1 in ("p", "s", "w", "sw"):
            for k2 in ("p", "s"):
                for k3 in ("p", "s"):
                    for back in (None, "p", "w", "sw"):
                        cs = [(0, 1, k1), (1, 2, k2), (2, 0, k3)]
                        if back:
                            cs.append((1, 0, back))
                        yield place, tuple(cs)


def to_scen(n, place, cs):
    sims = [dict(sid=SIDS[i], type="event-based", group=PLACES[place[i]], init_event=0,
                 emit_default=None) for i in range(n)]
    conns = []
    for a, b, kd in cs:
        c = dict(src=SIDS[a], dst=SIDS[b], sattr="eo", dattr="ti")
        if kd == "s":
            c["shift"] = 1
        elif kd == "w":
            c["weak"] = True
        elif kd == "sw":
            c["weak"] = True
            c["shift"] = 1
        elif kd == "x":
            c["rejected"] = True          # a refused connect() call (handled by the script)
        elif kd == "a":
            c["async"] = True
        elif kd == "as":
            c["async"] = True
            c["shift"] = 1
        elif kd == "aw":
            c["async"] = True
            c["weak"] = True
        conns.append(c)
    return dict(until=1, max_loop=3, groups=GROUPS, sims=sims, conns=conns)


class _Timeout(Exception):
    pass


def _alarm(*a):
    raise _Timeout()


def judge(scen, limit=20):
    """returns list of violations for one graph"""
    from .harness import Run
    topo = Topo(scen)
    cyc = topo.unresolved_cycle()
    run = Run(scen, dict(gates=()), None)
    signal.signal(signal.SIGALRM, _alarm)
    signal.alarm(limit)
    try:
        res = run.execute()
    except _Timeout:
        res = ("timeout",)
    finally:
        signal.alarm(0)
    if res[0] == "exc" and res[1] == "_Timeout":
        res = ("timeout",)
    out = []

    def add(kind, msg, cls=None):
        out.append(dict(prop="C06", kind=kind, cls=cls, msg=msg))
    stepped = [e for e in run.trace if e[0] == "B"]
    if res[0] == "timeout":
        add("does-not-terminate", f"run() did not return within {limit} s for {_fmt(scen)}")
        return out, cyc is not None
    if res[0] == "build-exc":
        add("connect-failed", f"connect() raised {res[1:]} for {_fmt(scen)}")
        return out, cyc is not None
    if res[0] == "exc" and res[1] == "AssertionError" and "incomparable" in res[2]:
        add("incomparable-assertion", f"run() ended with {res} "
            f"(reference: {'unresolved cycle ' + str(cyc) if cyc else 'accepted'}): {_fmt(scen)}",
            "incomparable-in-closure")
        return out, cyc is not None
    # a ScenarioError out of run() before any step is the rejection (whatever its wording)
    is_cycle_err = res[0] == "exc" and res[1] == "ScenarioError"
    if cyc is not None:
        if not is_cycle_err:
            add("unresolved-cycle-accepted",
                f"reference finds the unresolved cycle {cyc} but run() ended with {res[:2]}: {_fmt(scen)}")
        else:
            if stepped:
                add("stepped-before-rejection", f"{stepped[:2]} before the ScenarioError: {_fmt(scen)}")
            walk = re.findall(r"sid='([^']+)'", res[2])
            if len(walk) < 2:      # another rendering of the path: take the known ids in order
                walk = re.findall(r"(?<![A-Za-z0-9_])(" + "|".join(map(re.escape, topo.sims)) +
                                  r")(?![A-Za-z0-9_])", res[2])
            prob = _walk_problem(topo, walk) if len(walk) >= 2 else None
            if prob:
                add("reported-cycle-not-real", f"message names {walk}: {prob}: {_fmt(scen)}")
    else:
        if is_cycle_err:
            add("resolved-cycle-rejected", f"no unresolved cycle but run() raised: {res[2][:120]}: {_fmt(scen)}")
        elif res[0] != "ok":
            add("accepted-scenario-failed", f"run() ended with {res}: {_fmt(scen)}")
    return out, cyc is not None


def extra_orders(n, tier, idx):
    """work-list orders (hash orders of the simulators) beyond the default start order"""
    sids = SIDS[:n]
    perms = [list(p) for p in itertools.permutations(sids)][1:]
    if n <= 2 or (tier == "thorough" and n == 3 and len(perms) <= 5 and idx % 4 == 0):
        return perms              # all orders (thorough: for every fourth graph with n = 3)
    rev = sids[::-1]
    # otherwise the reverse order for every graph, plus one more (rotating through the rest)
    rest = [p for p in perms if p != rev]
    return [rev, rest[idx % len(rest)]]


def judge_order(scen, order, limit=20):
    """the decision of the cycle check alone (no run) when its work lists are processed in
    another order; must agree with the reference just like the default order"""
    from .harness import Run
    from . import stubs, env as _env
    topo = Topo(scen)
    cyc = topo.unresolved_cycle()
    run = Run(scen, dict(gates=(), hash_order=order), None)
    stubs.CTX = run
    _env.LOG_SINK.append(run.logs)
    out = []

    def add(kind, msg, cls=None):
        out.append(dict(prop="C06", kind=kind, cls=cls, msg=msg + f" [work-list order {order}]",
                        hash_order=order))
    signal.signal(signal.SIGALRM, _alarm)
    signal.alarm(limit)
    try:
        try:
            run.build()
        except Exception as e:  # noqa: BLE001
            add("connect-failed", f"connect() raised {type(e).__name__} for {_fmt(scen)}")
            return out
        w = run.world
        try:
            w.ensure_no_dataflow_cycles()
            w.cache_triggering_ancestors()
            res = ("accept",)
        except _Timeout:
            res = ("timeout",)
        except Exception as e:  # noqa: BLE001
            res = (type(e).__name__, str(e))
    except _Timeout:
        res = ("timeout",)
    finally:
        signal.alarm(0)
        _env.LOG_SINK.pop()
        try:
            run.world.shutdown()
        except Exception:  # noqa: BLE001
            pass
        run.dead = True
        stubs.CTX = None
    if res[0] == "timeout":
        add("does-not-terminate", f"the cycle check did not return within {limit} s for {_fmt(scen)}")
    elif res[0] == "AssertionError" and "incomparable" in res[1]:
        add("incomparable-assertion", f"the cycle check ended with {res} (reference: "
            f"{'unresolved cycle ' + str(cyc) if cyc else 'accepted'}): {_fmt(scen)}",
            "incomparable-in-closure")
    elif cyc is not None and res[0] != "ScenarioError":
        add("unresolved-cycle-accepted",
            f"reference finds the unresolved cycle {cyc} but the cycle check ended with {res[:1]}: {_fmt(scen)}")
    elif cyc is None and res[0] == "ScenarioError":
        add("resolved-cycle-rejected", f"no unresolved cycle but the check raised: {res[1][:120]}: {_fmt(scen)}")
    elif cyc is None and res[0] != "accept":
        add("accepted-scenario-failed", f"the cycle check ended with {res}: {_fmt(scen)}")
    return out


def _walk_problem(topo, walk):
    if len(walk) < 2 or walk[0] != walk[-1]:
        return "not a closed walk"
    members = set(walk)
    for a, b in zip(walk, walk[1:]):
        cs = [c for c in topo.conns if c["src"] == a and c["dst"] == b]
        if not cs:
            return f"no connection {a}->{b}"
        cs2 = cs + [{"src": a, "dst": b} for c in cs if c.get("async")]
        if all(topo.hop_resolves(c, members) for c in cs2):
            return f"every connection {a}->{b} resolves the cycle"
    return None


def _fmt(scen):
    g = {s["sid"]: s.get("group") for s in scen["sims"]}
    cs = [(c["src"], c["dst"], ("REFUSED:" if c.get("rejected") else "") + ("a" if c.get("async") else "") +
           ("sw" if c.get("shift") and c.get("weak") else "s" if c.get("shift") else "w" if c.get("weak")
            else "" if c.get("async") else "p"))
          for c in scen["conns"]]
    return f"groups={g} conns={cs}"


def _work(args):
    n, chunk = args
    res = []
    for idx, (place, cs) in enumerate(chunk):
        scen = to_scen(n, place, cs)
        try:
            v, cyc = judge(scen)
            for order in extra_orders(n, TIER[0], idx):
                v = v + judge_order(scen, order)
        except Exception as e:  # noqa: BLE001
            v, cyc = [dict(prop="C06", kind="harness-error", cls=None, msg=repr(e)[:200])], False
        res.append((v, cyc, scen if v else None))
    return res


TIER = ["quick"]


def replay(doc):
    if doc.get("hash_order"):
        v, cyc = judge_order(doc["scenario"], doc["hash_order"]), None
    else:
        v, cyc = judge(doc["scenario"])
    for x in v:
        print("REPRODUCED", x["kind"], x["msg"])
    if not v:
        print("not reproduced; reference cycle:", cyc)
    return 1 if v else 0


def check(prop, tier):
    t0 = time.time()
    TIER[0] = tier
    fams = [(1, 4, False), (2, 4, False), (3, 4, False), (2, 3, True), (3, 3, True)] if tier == "quick" \
        else [(1, 5, False), (2, 5, False), (3, 5, False), (2, 4, True), (3, 4, True)]
    jobs = []
    counts = {}
    for n, k, wa in fams:
        gs = list(graphs(n, k, wa))
        counts[f"n={n},k<={k}{',async' if wa else ''}"] = len(gs)
        for i in range(0, len(gs), 200):
            jobs.append((n, gs[i:i + 200]))
    gs = list(motif4())
    counts["motif4 (2+2 simulators, 6 connections)"] = len(gs)
    for i in range(0, len(gs), 200):
        jobs.append((4, gs[i:i + 200]))
    for n, k in ((1, 3), (2, 3)) if tier == "quick" else ((1, 4), (2, 4), (3, 3)):
        gs = list(graphs(n, k, False, True))
        counts[f"n={n},k<={k},weak+shifted"] = len(gs)
        for i in range(0, len(gs), 200):
            jobs.append((n, gs[i:i + 200]))
    gs = list(sw_rings())
    counts["rings with a weak+time-shifted edge"] = len(gs)
    jobs.append((3, gs))
    # every small graph plus ONE refused connect() call between each ordered pair (the script
    # handles the ScenarioError): the refused call is not a connection
    for n, k in ((2, 2), (3, 2)) if tier == "quick" else ((2, 3), (3, 3)):
        gs = [(place, tuple(cs) + ((a, b, "x"),)) for place, cs in graphs(n, k, False)
              for a in range(n) for b in range(n) if a != b]
        counts[f"n={n},k<={k} + one refused connect()"] = len(gs)
        for i in range(0, len(gs), 200):
            jobs.append((n, gs[i:i + 200]))
    rep = findings.Reporter("C06")
    slow = []
    total = cyc_n = 0
    kinds = {}
    sample = None
    nproc = int(os.environ.get("VERIF_PROCS", "16"))
    with mp.get_context("fork").Pool(nproc) as pool:
        for res in pool.imap_unordered(_work, jobs, chunksize=1):
            for v, cyc, scen in res:
                total += 1
                cyc_n += bool(cyc)
                if any(x["kind"] == "does-not-terminate" for x in v):
                    # a time limit can be hit because the machine is busy: judged again below,
                    # alone and with a much longer limit, before anything is reported
                    slow.append(scen)
                    continue
                for x in v:
                    sg = (x["kind"], x["cls"])
                    kinds[sg] = kinds.get(sg, 0) + 1
                    if kinds[sg] <= 5 or x["cls"]:
                        if x["kind"] == "harness-error":
                            print("MACHINERY-ERROR", x["msg"])
                            return 2
                        rep.report(x, dict(kind="call", module="mc.enum_c06", scenario=scen,
                                           hash_order=x.get("hash_order")))
    for scen in slow[:20]:
        v, cyc = judge(scen, limit=180)
        n_ = len(scen["sims"])
        for order in [list(p) for p in itertools.permutations(SIDS[:n_])][1:]:
            v = v + judge_order(scen, order, limit=180)
        for x in v:
            sg = (x["kind"], x["cls"])
            kinds[sg] = kinds.get(sg, 0) + 1
            rep.report(x, dict(kind="call", module="mc.enum_c06", scenario=scen))
    rc = rep.finish()
    ex = to_scen(2, (1, 1), ((0, 1, "p"), (1, 0, "w")))
    cov = dict(
        states=total, transitions=total, traces_validated_against_impl=total,
        evaluations=total, distinct_nontrivial=cyc_n,
        work_list_orders="every graph is also decided with the cycle check's work lists processed "
                         "in other orders (hash order of the simulators set by the harness): n<=2 "
                         "all orders, n>=3 the reverse and one more (thorough: all orders for every "
                         "fourth graph with n=3)",
        rule="one evaluation = world.run() on one connection multigraph (canonical up to renaming "
             "of simulators); non-trivial = the reference finds an unresolved cycle (the rest are "
             "accepted scenarios, which must run to completion)",
        samples=[dict(scenario=_fmt(ex), reference_unresolved_cycle=Topo(ex).unresolved_cycle())],
        exhaustive=True, families=counts, graphs_with_unresolved_cycle=cyc_n,
        violation_kinds={f"{k[0]}|{k[1]}": c for k, c in kinds.items()},
        known_findings_hit={k: v[1] for k, v in rep.known_hits.items()},
    )
    evidence.write("C06", tier, "model_checking", cov,
                   ["all simulators event-based with an initial event at 0 (so that a step would "
                    "be observable), trigger connections eo->ti",
                    "reference: networkx.simple_cycles; a hop is unresolved if some parallel "
                    "connection on it is neither time-shifted nor weak-with-the-cycle-inside-its-group"],
                   time.time() - t0, len(rep.violations))
    print(f"C06 {tier}: graphs={total} with-unresolved-cycle={cyc_n} families={counts} "
          f"violations={len(rep.violations)} wall={time.time() - t0:.1f}s")
    return rc
