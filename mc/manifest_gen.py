"""Regenerates /verif/MANIFEST.json from the table below (python -m mc.manifest_gen)."""
import json, os

HERE = os.path.dirname(os.path.dirname(os.path.abspath(__file__)))

SCHED_NOTE = ("trusted base: the virtual event loop (mc/vloop.py), the stub simulators, the reference "
              "semantics of tiered time written from the docs (mc/refmodel.py); assumptions A1-A5 of "
              "DESIGN.md section 2.2 restrict what is explored; bounds: <=5 simulators, <=2 entities per "
              "simulator, until<=7, <=2 early deliveries, execution cap per job (capped jobs are listed "
              "in the evidence); configurations: lazy x cache, gated or synchronous simulators (every "
              "subset in the thorough tier), start orders, hash order of simulator sets fixed by the harness, "
              "value shapes on the wire (strings, numbers incl. falsy values, dictionaries), simulators that "
              "reuse their reply dictionary")

CHECKS = {
    "C01": ("model_checking", "3 C01", "stateful DFS over reply-delivery schedules of the real scheduler (virtual asyncio loop), deviation-bounded early deliveries; trace monitor vs. reference tiered-time semantics",
            "for every explored scenario x configuration, no order of reply arrivals (with <= d early deliveries) lets a consumer begin a step before its producers finished everything due (directly, or transitively through steps that can still trigger a producer), nor a producer step late", SCHED_NOTE),
    "C02": ("model_checking", "3 C02", "stateful DFS over reply-delivery schedules; demand-set monitor built from the replies observed in the same execution",
            "in every explored schedule each simulator is stepped exactly at the demanded times, once, in order", SCHED_NOTE),
    "C03": ("model_checking", "3 C03", "stateful DFS over reply-delivery schedules; inputs of every step compared with the reference visibility rule (provenance tokens)",
            "in every explored schedule the inputs of every step equal the reference data-visibility rule", SCHED_NOTE),
    "C04": ("model_checking", "3 C04", "stateful DFS over schedules x {lazy} x {cache} x {debug} x start orders x {local, in-memory remote}; differential oracle on per-simulator (time, inputs) sequences",
            "the set of per-simulator views over all explored schedules and configurations of a scenario is a singleton", SCHED_NOTE),
    "C05": ("model_checking", "3 C05", "stateful DFS over reply-delivery schedules; deadlock = no runnable callback, gate or timer on the virtual loop; outcome compared with the reference outcome",
            "every explored schedule of every accepted scenario runs to completion without deadlock or internal error", SCHED_NOTE),
    "C07": ("model_checking", "3 C07", "stateful DFS over reply-delivery schedules; cause-chain monitor for steps inside a promised max_advance window; plus exhaustive enumeration of latency assignments and external-event placements of real-time scenarios on the virtual clock under the same monitor",
            "in every explored schedule no step falls into a promised window unless traceable to the simulator's own outputs or its own set_event (known finding F35 apart: external events of an ancestor in real-time mode)", SCHED_NOTE),
    "C09": ("model_checking", "3 C09", "stateful DFS over reply-delivery schedules of same-time loops around the bound; reference outcome",
            "loops of length m-1, m, m+1 and unsettled loops for m in 1..3, nested and sibling groups: error exactly when a sub-step index >= m is demanded", SCHED_NOTE),
    "C10": ("model_checking", "3 C10", "stateful DFS over reply-delivery schedules with lazy_stepping=True; run-ahead monitor on direct consumers",
            "in every explored schedule a producer never begins a step while a direct consumer has an earlier step outstanding", SCHED_NOTE),
}

ENUM_NOTE = ("trusted base: the reference predicate/table written from the statement and the docs; the "
             "enumeration bound stated in the evidence; every case is executed on the real code")
CHECKS.update({
    "C06": ("model_checking", "3 C06", "bounded-exhaustive enumeration of connection multigraphs (<=3 simulators, 4 group placements, <=4 connections of kind plain/shifted/weak/weak+shifted/async, up to renaming) through world.run(), each graph also decided under several work-list orders of the cycle check; small graphs additionally with one refused connect() call between each ordered pair; reference = simple-cycle enumeration",
            "every enumerated graph (about 210 000 in the quick tier: <=3 simulators/<=4 connections up to renaming, async families, a 2+2-simulator motif family): ScenarioError before any step iff the reference finds an unresolved cycle, the named cycle is real, accepted scenarios run to completion", ENUM_NOTE),
    "C08": ("model_checking", "3 C08", "bounded-exhaustive enumeration of TieredInterval/TieredTime values of every shape (length<=3, tiers 0..2) and evaluation of the order/action/associativity laws with the real operators",
            "all ordered pairs / triples within the bound satisfy trichotomy, transitivity, monotone action, associativity", ENUM_NOTE),
    "C11": ("model_checking", "3 C11", "bounded-exhaustive enumeration of connect() calls (types x group placements x attributes x flags, two-pair and fan-out calls, any_inputs on either side, child entities, models described with and without attrs) against a reference predicate, world snapshot before/after; schedule exploration of group-scoping scenarios; every well-nested program of start / enter group block / leave / leave by a handled exception up to length 8 (thorough 10)",
            "every enumerated call is rejected exactly when the reference says so and a rejected pair leaves the world unchanged; sub-time is shared only inside the common group in every schedule; a simulator belongs to exactly the group blocks that textually enclose its start", ENUM_NOTE),
    "C12": ("model_checking", "3 C12", "bounded-exhaustive enumeration of model descriptions over a 3-attribute universe x any_inputs x 3 types through world.start(), classification probed via the public surface, as a public model and as a non-public model of a child entity; all set-operator applications on finite/co-finite sets",
            "all 354 294 descriptions (public model) and 18 750 (non-public child model; 354 294 in the thorough tier): rejected or classified exactly as the finite-set reference says", ENUM_NOTE),
    "C15": ("model_checking", "3 C15", "exhaustive enumeration of (version string, init/step signature, type, configured api_version, transport) starts against a table; run-time cases (announced type, raising step, extra-method requests) per version and transport; several simulators started from one sim_config entry; schedule exploration of a 3-simulator scenario with the old simulator in each position",
            "every combination of the closed list is rejected or served exactly as the table says; the old simulator's view equals the current-version view in every schedule", ENUM_NOTE),
    "C18": ("model_checking", "3 C18", "exhaustive enumeration of every outcome of every random call (enumerating random source, DFS over choice sequences) for all set sizes/flags in the bound; arguments as list, tuple, set, iterator, generator",
            "for <=5 sources, <=4 destinations, all flags, every kind of iterable: every random outcome satisfies the distribution contract", ENUM_NOTE),
})

FAULT_NOTE = ("trusted base: virtual loop, stubs, the in-memory stream transport that stands in for sockets "
              "(it runs the real Channel/RemoteProxy/mosaik_api_v3 code; its close/EOF/write-after-loss "
              "behaviour is modelled after asyncio's stream transport, both 'write fails' and 'write is "
              "buffered silently' are explored); one fault per run; real sockets/processes only in "
              "findings/realproc (demonstration, not part of the exhaustive claim)")
CHECKS.update({
    "C13": ("fault_enumeration", "3 C13", "fault enumeration inside the schedule exploration: every malformed reply value (incl. numpy scalars and bool) x every simulator x every step index of 6 topologies, all reply-delivery schedules with <=1 early delivery, local and in-memory remote transport",
            "every malformed reply aborts run() with an error naming the simulator, which is not stepped again; steps of other simulators begun afterwards still satisfy the step-set and data-flow monitors", FAULT_NOTE),
    "C14": ("fault_enumeration", "3 C14", "crash-point enumeration inside the schedule exploration: every request index of every simulator x {handler raises (four exception types), connection closed, process dies mid-request, process dies while idle, process dies with a request of its own outstanding, finalize raises} x {local, in-memory remote} x {debug} x current/old API x all schedules with <=1 (thorough <=2) early deliveries, timer-vs-reply races included",
            "run() never hangs after a fault, every other simulator gets exactly one stop/finalize, loop closed, no mosaik task or channel left (known finding F10 apart)", FAULT_NOTE),
    "C16": ("model_checking", "3 C16", "stateful DFS over reply-delivery schedules of A + 1-2 async agents (every step ratio, every subset of steps calling set_data, a gate after the call-back; time-shifted and feedback connections; multi-destination calls), negative cases; local and in-memory remote",
            "in every explored schedule set_data values reach A exactly once in its next step, A never overtakes an unfinished agent step, unconnected requests are refused with ScenarioError", SCHED_NOTE),
    "C17": ("model_checking", "3 C17", "exhaustive enumeration of step-latency assignments (alphabet of multiples of the real-time step, awaited or blocking the event loop) and external-event placements (later ticks, the running tick, phase-shifted polling; simulators outside and inside groups) on a virtual clock; strict vs non-strict differential",
            "for every latency assignment within the bound: pacing lower bound holds, runs complete, events are stepped/ignored as specified, rt_strict only turns the first report into an error (known finding F12 apart)",
            "trusted base: virtual clock (perf_counter rebound to virtual time + strictly increasing tick); bounds: <=3 simulators, until<=4, <=2 events"),
})

NOT_YET = {
}


def main():
    props = [json.loads(l) for l in open(os.path.join(HERE, "properties.jsonl"))]
    checks = []
    na = []
    for p in props:
        pid = p["id"]
        if pid in CHECKS:
            cat, ref, tech, text, note = CHECKS[pid]
            checks.append(dict(
                property_id=pid,
                quick_cmd=f"./check {pid} --tier quick",
                thorough_cmd=f"./check {pid} --tier thorough",
                evidence_file=f"/verif/evidence/{pid}.json",
                replay_cmd_template=f"./check {pid} --replay {{path}}",
                engine="mc",
                level_claimed=dict(category=cat, text=text, design_ref=f"DESIGN.md section {ref}"),
                level_note=note,
                technique=tech,
            ))
        else:
            na.append(dict(property_id=pid, reason=NOT_YET.get(
                pid, "check under construction in this session (designed in DESIGN.md section 3); "
                     "not claimed until its command exists")))
    doc = dict(
        version=1,
        setup_cmd="./setup.sh",
        hooks=dict(guard="MOSAIK_VERIF", enable="no source hooks: checks drive the unmodified "
                   "package through public seams (asyncio_loop=, generator-style simulators, "
                   "StarterCollection) and rebind mosaik.scheduler.perf_counter / mosaik.util.random "
                   "from outside", baseline_off_cmd="cd /repo && /venv/bin/python -m pytest -ra -q "
                   "-p no:cacheprovider --timeout=900 --continue-on-collection-errors",
                   source_commits=[], add_only=True),
        engines=[dict(name="mc", path="/verif/mc", serves_properties=sorted(CHECKS),
                      kind_free_text="explicit-state model checker for asyncio code written for this "
                      "task: virtual event loop + DFS over choice sequences with canonical-state "
                      "merging and deviation bounding; bounded-exhaustive input enumeration for the "
                      "pure properties")],
        checks=checks,
        not_applicable=na,
        notes="see DESIGN.md; known_findings.json lists recorded and repaired defects",
    )
    with open(os.path.join(HERE, "MANIFEST.json"), "w") as f:
        json.dump(doc, f, indent=1)
    print(f"{len(checks)} checks, {len(na)} not claimed")


if __name__ == "__main__":
    main()
