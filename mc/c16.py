"""Scenario family for C16 (asynchronous requests): A (time-based) with 1-2 agents connected
with async_requests=True; every subset of the agents' steps carries a set_data call (plus
get_data calls), a second gate after the call-back lets it interleave with everything;
negative cases: requests towards an unconnected simulator and towards one connected without
the flag."""
from __future__ import annotations

import itertools
import math

from .scenarios import T


def aconn(src, dst, flag=True):
    c = dict(src=src, dst=dst, sattr="po", dattr="mi")
    if flag:
        c["async"] = True
    return c


def subsets(xs):
    for r in range(len(xs) + 1):
        for c in itertools.combinations(xs, r):
            yield c


def family(tier):
    out = []
    until = 4
    # one agent: every step-size ratio, every subset of its steps
    for sa in (1, 2):
        for sm in (1, 2, 3):
            nsteps = math.ceil(until / sm)
            for sub in subsets(range(nsteps)):
                if not sub:
                    continue
                acts = {str(k): [("set", "A.e", "mi"), ("gate", 0)] for k in sub}
                if 0 not in sub:
                    acts["0"] = [("get", "A.e", "po")]
                out.append((f"a1_A{sa}_M{sm}_{''.join(map(str, sub))}",
                            dict(until=until, sims=[T("A", sa), T("M", sm, **{"async": acts})],
                                 conns=[aconn("A", "M")])))
    # two agents writing one attribute
    for (s1, s2) in ((1, 1), (1, 2), (2, 3)):
        for sub1 in ((0,), (0, 1), (1, 2)):
            for sub2 in ((0,), (1,), (0, 2)):
                a1 = {str(k): [("set", "A.e", "mi"), ("gate", 0)] for k in sub1}
                a2 = {str(k): [("gate", 0), ("set", "A.e", "mi")] for k in sub2}
                out.append((f"a2_M{s1}{s2}_{''.join(map(str, sub1))}_{''.join(map(str, sub2))}",
                            dict(until=3, sims=[T("A"), T("M1", s1, **{"async": a1}),
                                                T("M2", s2, **{"async": a2})],
                                 conns=[aconn("A", "M1"), aconn("A", "M2")])))
    # an ordinary persistent connection into the very attribute the agent writes (sparse set_data):
    # the value set once must not turn into a persistent input
    for sub in ((0,), (1,), (0, 2)):
        acts = {str(k): [("set", "A.e", "mi")] for k in sub}
        out.append((f"a1_persistent_same_attr_{''.join(map(str, sub))}",
                    dict(until=4, sims=[T("P"), T("A"), T("M", 1, **{"async": acts})],
                         conns=[dict(src="P", dst="A", sattr="po", dattr="mi"), aconn("A", "M")])))
    # an event-based agent that a THIRD simulator triggers (it has no step of its own queued
    # while A decides whether it may go on)
    from .scenarios import E
    for sub in ((0, 1, 2), (1,), (0, 2)):
        acts = {str(k): [("set", "A.e", "mi"), ("gate", 0)] for k in sub}
        out.append((f"a1_event_agent_{''.join(map(str, sub))}",
                    dict(until=3, sims=[T("A"), T("Tr"), E("M", **{"async": acts})],
                         conns=[dict(src="A", dst="M", **{"async": True}),     # no data pair at all
                                dict(src="Tr", dst="M", sattr="po", dattr="ti")])))
        out.append((f"a1_event_agent_startorder_{''.join(map(str, sub))}",
                    dict(until=3, order=["A", "M", "Tr"],
                         sims=[T("A"), T("Tr"), E("M", **{"async": acts})],
                         conns=[dict(src="A", dst="M", **{"async": True}),
                                dict(src="Tr", dst="M", sattr="po", dattr="ti")])))
    # the async connection's data pair is time-shifted (the agent reads old data but must still
    # not run ahead of A), alone or declared by a separate earlier connect() call
    for sh in (1, 2):
        for sub in ((0, 1, 2, 3), (1,), (0, 2)):
            acts = {str(k): [("set", "A.e", "mi"), ("gate", 0)] for k in sub}
            tag = "".join(map(str, sub))
            out.append((f"a1_shift{sh}_{tag}",
                        dict(until=4, sims=[T("A"), T("M", 1, **{"async": acts})],
                             conns=[dict(aconn("A", "M"), shift=sh, init=True)])))
            out.append((f"a1_shift{sh}_first_{tag}",
                        dict(until=4, sims=[T("A"), T("M", 1, **{"async": acts})],
                             conns=[dict(aconn("A", "M", flag=False), shift=sh, init=True),
                                    dict(src="A", dst="M", **{"async": True})])))
            # ... and an ordinary time-shifted feedback connection from the agent back to A
            # (set_data writes another attribute: one slot cannot hold both values)
            acts = {str(k): [("set", "A.e", "sd"), ("gate", 0)] for k in sub}
            out.append((f"a1_feedback{sh}_{tag}",
                        dict(until=4, sims=[T("A"), T("M", 1, **{"async": acts})],
                             conns=[aconn("A", "M"),
                                    dict(src="M", dst="A", sattr="po", dattr="mi", shift=sh, init=True)])))
    # ONE set_data call with two destinations, one of them without async_requests connection
    for dsts in (["A.e", "X.e"], ["X.e", "A.e"], ["A.e", "B.e"]):
        out.append((f"set2_{'_'.join(d[0] for d in dsts)}", dict(
            until=3, sims=[T("A"), T("B"), T("X"),
                           T("M", 1, **{"async": {"0": [("set2", dsts, "mi")],
                                                  "1": [("set", "A.e", "mi")]}})],
            conns=[aconn("A", "M"), aconn("B", "M")])))
    # negative cases
    out.append(("neg_no_flag", dict(
        until=2, sims=[T("A"), T("M", 1, **{"async": {"0": [("set", "A.e", "mi")],
                                                      "1": [("get", "A.e", "po")]}})],
        conns=[aconn("A", "M", flag=False)])))
    out.append(("neg_unconnected", dict(
        until=2, sims=[T("A"), T("X"), T("M", 1, **{"async": {"0": [("set", "X.e", "mi"),
                                                                    ("get", "X.e", "po")],
                                                              "1": [("set", "A.e", "mi")]}})],
        conns=[aconn("A", "M")])))
    # requests of a simulator towards its OWN entities (no connection of a simulator to itself)
    out.append(("neg_self", dict(
        until=2, sims=[T("A"), T("M", 1, **{"async": {"0": [("set", "M.e", "mi"), ("get", "M.e", "po")],
                                                      "1": [("set", "A.e", "mi")]}})],
        conns=[aconn("A", "M")])))
    out.append(("neg_wrong_direction", dict(
        until=2, sims=[T("A"), T("M", 1), T("Q", 1, **{"async": {"0": [("set", "M.e", "mi")]}})],
        conns=[aconn("A", "M"), dict(src="M", dst="Q", sattr="po", dattr="mi")])))
    return out


def jobs(tier, seed):
    js = []
    for name, scen in family(tier):
        cfgs = [dict(lazy=True, cache=True), dict(lazy=False, cache=False)]
        if tier == "thorough":
            cfgs = [dict(lazy=l, cache=c) for l in (True, False) for c in (True, False)]
        for cfg in cfgs:
            js.append(dict(name="c16_" + name, scen=scen, cfg=cfg, budget=1, max_exec=3000))
        # no gates at all: a step() that makes no request returns without yielding anything
        js.append(dict(name="c16_" + name, scen=dict(scen), cfg=dict(lazy=True, cache=True, gates=[]),
                       budget=0, max_exec=10))
        # value shapes on the wire (mc/vshape.py): set_data values that are falsy / dictionaries
        if not any(ch.isdigit() for s_ in scen["sims"] for ch in s_["sid"]):
            for shape, cache in (("num", True), ("dict", False)):
                js.append(dict(name="c16_" + name, scen=scen,
                               cfg=dict(lazy=True, cache=cache, vshape=shape), budget=0, max_exec=1500))
        if "persistent_same_attr" in name:
            for cfg in (dict(lazy=True, cache=False), dict(lazy=False, cache=True)):
                js.append(dict(name="c16_" + name, scen=scen, cfg=cfg, budget=1, max_exec=3000))
        if name.startswith(("neg", "a2")) or tier == "thorough":
            js.append(dict(name="c16_" + name, scen=scen,
                           cfg=dict(lazy=True, cache=True, transport="mem"), budget=0, max_exec=2000))
    return js
