"""Extra scenario family for C16 (asynchronous requests); see DESIGN.md C16."""
def jobs(tier, seed):
    return []
