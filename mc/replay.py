"""Re-execute a recorded violation without the explorer.

    ./check <Cxx> --replay replays/<file>.json

The file holds the scenario, the configuration and the choice sequence (with
the names of the released gates; a mismatch while replaying is a hard error).
Exit 1 when the violation reproduces, 0 when it does not.
"""
from __future__ import annotations

import json
import sys


def main(prop, path):
    from .explorer import Divergence
    try:
        return _main(prop, path)
    except Divergence as e:
        print(f"DIVERGENCE: the recorded choice sequence does not fit this tree: {e}")
        return 2


def _main(prop, path):
    with open(path) as f:
        doc = json.load(f)
    kind = doc.get("kind")
    if kind == "schedule":
        from . import explorer
        if doc.get("inject"):
            import importlib
            from .harness import Run
            inj = importlib.import_module(doc["inject"]).inject
            Run.inject_fault = lambda self, stub, f: inj(self, stub, f)
        x = explorer.replay(doc["scenario"], doc["cfg"], doc["choices"], names=doc.get("names"),
                            timer_choice=bool(doc.get("inject")))
        for ev in x.run.trace:
            print("   ", ev)
        print("result:", x.result)
        want = doc.get("orig") or doc.get("violation", {})
        hits = [v for v in x.viol if v["prop"] == want.get("prop") and v["kind"] == want.get("kind")]
        post = doc.get("post")
        if post:
            import importlib
            m = importlib.import_module(post["module"])
            hits += [v for v in getattr(m, post["func"])(x, *post.get("args", []))
                     if v["prop"] == want.get("prop") and v["kind"] == want.get("kind")]
        for v in hits:
            print(f"REPRODUCED property={v['prop']} kind={v['kind']} cls={v.get('cls')}: {v['msg']}")
        if not hits:
            print("not reproduced; violations of this execution:", [(v["prop"], v["kind"]) for v in x.viol])
        return 1 if hits else 0
    if kind == "schedule-pair":
        from . import explorer
        views = []
        for side in ("a", "b"):
            x = explorer.replay(doc["scenario"], doc[side]["cfg"], doc[side]["choices"])
            views.append(x.view)
            print(side, doc[side]["cfg"], x.result)
            for sid, seq in sorted(x.view.items()):
                print("   ", sid, seq)
        same = views[0] == views[1]
        print("views equal" if same else "REPRODUCED property=C04: views differ")
        return 0 if same else 1
    if kind == "call":
        import importlib
        m = importlib.import_module(doc["module"])
        return getattr(m, "replay")(doc)
    print("unknown replay kind", kind, file=sys.stderr)
    return 2
