"""C17 -- real-time pacing and external events, on the virtual clock.

Choice points: the latency of every step (from a small alphabet of multiples of the
real-time step length f) -- enumerated exhaustively (stateless DFS over choice sequences);
external events are injected by a task that calls the real MosaikRemote.set_event at
enumerated virtual times with enumerated targets.  perf_counter is the strictly
increasing virtual clock (vtime + n*2^-30)."""
from __future__ import annotations

import asyncio
import itertools
import math
import multiprocessing as mp
import os
import time

from . import env, evidence, findings  # noqa: F401
from .choices import all_executions, Chooser
from .harness import Run
from .monitors import Monitor
from .scenarios import T, E, C

EPS = 0.0
TOL = 1e-6


def f_of(scen):
    return scen["rt_factor"] * scen.get("time_resolution", 1.0)


def execute(scen, strict, chooser, alphabet, fixed=None):
    """one execution; latencies drawn from `alphabet` (multiples of f) via chooser, or taken
    from `fixed` {(sid, k): latency} (so that two runs can be given the same latencies even if
    their steps are requested in a different global order)"""
    f = f_of(scen) if scen.get("rt_factor") else 1.0
    run = Run(scen, dict(gates=(), rt_strict=strict, max_iterations=20000), None)
    lats = []

    assigned = {}

    def latency(stub, k):
        if fixed is not None and (stub.sid, k) in fixed:
            lat = fixed[(stub.sid, k)]
        else:
            i = chooser(len(alphabet)) if len(alphabet) > 1 else 0
            lat = alphabet[i]
        assigned[(stub.sid, k)] = lat
        lats.append(lat)
        return lat * f

    run.assigned = assigned

    run.latency = latency
    injected = []

    def on_setup_done(stub):
        for (sid, at, target) in scen.get("events", []):
            if sid != stub.sid:
                continue

            async def inj(at=at, target=target, stub=stub):
                await asyncio.sleep(at * f)
                loop = asyncio.get_running_loop()
                w = run.world
                now = math.ceil(max(loop.time(), 1e-12) / f) if scen.get("rt_factor") else 0
                t = target if isinstance(target, int) else \
                    {"now": now, "now+1": now + 1, "now+2": now + 2, "until-1": w.until - 1,
                     "until": w.until, "until+3": w.until + 3}[target]
                # "now" = the tick that is running (its due time rt_factor*t is still ahead)
                if scen.get("rt_factor") and target == "now" and not (
                        t * f > loop.time() + 1e-9 and t < w.until):
                    run.ev("EV", stub.sid, t, "skipped-not-future")
                    return
                if scen.get("rt_factor") and (isinstance(target, int) or
                                              target.startswith(("now+", "until-1"))) and t <= now:
                    run.ev("EV", stub.sid, t, "skipped-not-future")
                    return
                nlog = len(run.logs)
                try:
                    await stub.mosaik.set_event(t)
                    warned = len(run.logs) > nlog      # any warning logged during the call
                    run.ev("EV", stub.sid, t, "ignored-with-warning" if warned else
                           ("ignored-silently" if t >= w.until else "ok"))
                except Exception as e:  # noqa: BLE001
                    run.ev("EV", stub.sid, t, "error:" + type(e).__name__)
            injected.append(asyncio.get_running_loop().create_task(inj()))

    run.on_setup_done = on_setup_done
    mon = Monitor(scen, run.cfg)
    run.on_event = mon.feed
    res = run.execute()
    viol = mon.finish(res) if not (strict and res[0] == "exc" and res[1] == "RuntimeError") else mon.viol
    return run, res, viol, lats


def judge(scen, strict, run, res, viol, lats):
    out = []
    f = f_of(scen) if scen.get("rt_factor") else None

    def add(kind, msg, cls=None):
        out.append(dict(prop="C17", kind=kind, cls=cls, msg=msg))
    slow = [m for lv, m in run.logs if "too slow" in m.lower()]
    if f is not None:
        for ev, at in zip(run.trace, run.times):
            if ev[0] == "B":
                t = ev[3]
                if at < f * (t - 1) - TOL:
                    add("step-begins-too-early",
                        f"{ev[1]} began its step for time {t} at {at:.4f}s < f*(t-1) = {f * (t - 1):.4f}s")
        instant = all(x == 0 for x in lats)
        too_slow_raised = res[0] == "exc" and res[1] == "RuntimeError"
        if instant and (slow or too_slow_raised):
            # F12 as recorded: the report comes from a step at time 0 (late by clock ticks) or
            # from a simulator that has a predecessor (late by at most one real-time step).
            # Any other too-slow report of an instant run is not that finding.
            cls = "too-slow-with-instant-simulators"
            why = ""
            has_pred = {c["dst"] for c in scen["conns"]}
            at = getattr(run.logs, "at", [])
            for i, (lv, msg) in enumerate(run.logs):
                if "too slow" not in msg.lower():
                    continue
                pos = at[i][0] if i < len(at) else len(run.trace)
                prev = [e for e in run.trace[:pos] if e[0] == "S"]
                sid, t = (prev[-1][1], prev[-1][3]) if prev else (None, None)
                # lateness from the virtual clock at the moment of the report (no message parsing)
                delta = (at[i][1] - f * t) if (i < len(at) and t is not None) else None
                # a consumer may only start once its producer's real-time progress has *passed*
                # t, which the producer notices at its next poll: up to one real-time step late
                ok = delta is not None and ((t == 0 and delta < 0.5 * f) or
                                            (sid in has_pred and delta <= f * (1 + 1e-6)))
                if not ok:
                    cls = None
                    why = f" (step of {sid} for time {t}, {delta} s behind, f={f})"
                    break
            if too_slow_raised and not slow:
                last = [e for e in run.trace if e[0] == "S"]
                sid, t = (last[-1][1], last[-1][3]) if last else (None, None)
                if not (t == 0 or sid in has_pred):
                    cls = None
                    why = f" (raised after the step of {sid} for time {t})"
            add("instant-run-reported-too-slow",
                f"all simulators answer instantly but "
                f"{'RuntimeError(too slow) was raised' if too_slow_raised else str(len(slow)) + ' too-slow warning(s) were logged'}"
                + why, cls=cls)
        if res[0] != "ok" and not (strict and too_slow_raised):
            add("real-time-run-failed", f"run() ended with {res}")
        if not strict and too_slow_raised:
            add("raised-without-strict", "RuntimeError(too slow) although rt_strict=False")
    for v in viol:
        if v["prop"] in ("C02", "C05"):
            add("event-or-step-set", f"[{v['prop']}/{v['kind']}] {v['msg']}")
    for ev in run.trace:
        if ev[0] == "EV":
            _, sid, t, outcome = ev
            if outcome == "skipped-not-future":
                continue          # not injected at all
            if f is None:
                if outcome != "error:SimulationError":
                    add("set-event-outside-real-time", f"set_event({t}) outside real-time mode -> {outcome}")
            elif t >= scen["until"]:
                if outcome != "ignored-with-warning":
                    add("late-event-not-ignored-with-warning", f"set_event({t}) with until={scen['until']} -> {outcome}")
            elif outcome not in ("ok", "skipped-not-future"):
                add("future-event-refused", f"set_event({t}) -> {outcome}")
    return out, len(slow)


def compare_strict(scen, choices, alphabet):
    """(e): strict changes nothing but turns the first too-slow report into a RuntimeError.
    Compared per simulator (the failing process stops, the others may still get a few events
    in before run() unwinds)."""
    r0, res0, _, _ = execute(scen, False, Chooser(choices), alphabet)
    r1, res1, _, _ = execute(scen, True, Chooser([]), alphabet, fixed=r0.assigned)
    slow0 = [m for lv, m in r0.logs if "too slow" in m.lower()]
    out = []

    def add(kind, msg):
        out.append(dict(prop="C17", kind=kind, cls=None, msg=msg))

    def per_sim(run):
        d = {}
        for e in run.trace:
            if e[0] in ("B", "S", "D"):
                d.setdefault(e[1], []).append(e)
        return d
    raised = res1[0] == "exc" and res1[1] == "RuntimeError"
    if bool(slow0) != raised:
        add("strict-differs", f"non-strict logged {len(slow0)} too-slow report(s) but the strict run "
                              f"ended with {res1[:2]}")
    p0, p1 = per_sim(r0), per_sim(r1)
    for sid, seq in p1.items():
        if seq != p0.get(sid, [])[:len(seq)]:
            add("strict-differs", f"{sid}: the strict run's steps are not a prefix of the non-strict run's")
    if not raised and (p0 != p1 or res0 != res1):
        add("strict-differs", f"no too-slow report, yet the runs differ: {res0} vs {res1}")
    return out


# ---- families ----------------------------------------------------------------------------------
def pacing_scenarios(tier):
    out = []
    grid = [(0.5, 0.5), (0.5, 1), (0.5, 2), (1, 0.5), (1, 1), (1, 2), (2, 0.5), (2, 1), (2, 2), (0.1, 1)]
    grid.append((0.004, 1))       # a real-time step far below typical poll/sleep granularities
    if tier == "quick":
        grid = [(0.5, 1), (1, 2), (2, 0.5), (0.1, 1), (1, 1), (0.004, 1)]
    for rf, tr in grid:
        base = dict(rt_factor=rf, time_resolution=tr)
        out.append((f"rt_single_{rf}x{tr}", dict(base, until=4, sims=[T("A")], conns=[]),
                    [0, 0.5, 1.5, 2.5]))
        out.append((f"rt_chain_{rf}x{tr}", dict(base, until=3, sims=[T("A"), T("B")],
                                                conns=[C("A", "B", "po", "mi")]), [0, 0.5, 1.5]))
        out.append((f"rt_indep2_{rf}x{tr}", dict(base, until=3, sims=[T("A"), T("B", 2)], conns=[]),
                    [0, 1.5]))
        # negative entries: the simulator blocks the event loop for that long (a synchronous
        # in-process simulator), so other processes start late
        big = tier != "quick"
        out.append((f"rt_block_idle_{rf}x{tr}", dict(base, until=3, sims=[T("A"), E("B")], conns=[]),
                    [0, -0.5, -2.5] if big else [0, -2.5]))
        out.append((f"rt_block_indep2_{rf}x{tr}", dict(base, until=3, sims=[T("A"), T("B", 2)], conns=[]),
                    [0, -1.5]))
        out.append((f"rt_block_chain_{rf}x{tr}", dict(base, until=3 if big else 2,
                                                      sims=[T("A"), E("B"), T("X", 2)],
                                                      conns=[C("A", "B", "po", "ti")]),
                    [0, 1.5, -1.5] if big and rf == 1 else [0, -1.5]))
    out.append(("rt_group", dict(rt_factor=1, until=3, groups={"g": None},
                                 sims=[T("A", group="g"), T("B", group="g"), T("X")],
                                 conns=[C("A", "B", "po", "mi")]), [0, 1.5]))
    # a triggered simulator with steps of its own behind a sparse ancestor
    from .scenarios import H
    out.append(("rt_sparse_anc_chain", dict(rt_factor=1, until=4,
                                            sims=[T("A", 3), E("B", emit_default=0), H("Cc", next_default=1)],
                                            conns=[C("A", "B", "po", "ti"), C("B", "Cc", "eo", "ti")]), [0]))
    out.append(("rt_indep3", dict(rt_factor=1, until=2, sims=[T("A"), T("B"), T("X")], conns=[]), [0, 1.5]))
    out.append(("rt_chain3", dict(rt_factor=1, until=3, sims=[T("A"), T("B"), E("Z")],
                                  conns=[C("A", "B", "po", "mi"), C("B", "Z", "po", "ti")]), [0, 1.5]))
    return out


def event_scenarios(tier):
    out = []
    until = 4
    targets = ["now+1", "now+2", "until-1", "until", "until+3", "now"]
    grid = [0.25 + 0.5 * i for i in range(0, 2 * until - 1)]
    sims = [E("A", set_events=True, emit_default=0), E("B")]
    conns = [C("A", "B", "eo", "ti")]
    for at in grid:
        for tg in targets:
            out.append((f"rt_ev_{at}_{tg}", dict(rt_factor=1, until=until, sims=sims, conns=conns,
                                                 events=[("A", at, tg)]), [0]))
    pairs = list(itertools.product(grid[::2], targets[:4] + ["now"]))
    for (a1, t1), (a2, t2) in itertools.combinations(pairs, 2):
        if a1 == a2 and t1 == t2:
            continue
        if tier == "quick" and (hash((a1, t1, a2, t2)) % 3):
            pass
        out.append((f"rt_ev2_{a1}_{t1}_{a2}_{t2}",
                    dict(rt_factor=1, until=until, sims=sims, conns=conns,
                         events=[("A", a1, t1), ("A", a2, t2)]), [0]))
    # an earlier event shifts the phase of the simulator's wall-clock polling away from the tick
    # boundaries; a second event for the running tick then arrives between a tick boundary and
    # the next poll
    for a1 in (0.25, 0.5, 0.75):
        for t1 in ("now", "now+1"):
            for a2 in (1.1, 2.1, 2.35, 2.6):
                out.append((f"rt_ev2p_{a1}_{t1}_{a2}",
                            dict(rt_factor=1, until=until, sims=sims, conns=conns,
                                 events=[("A", a1, t1), ("A", a2, "now")]), [0]))
    # with a self-stepping target and latencies
    for at in grid[::2]:
        for tg in targets[:3] + ["now"]:
            out.append((f"rt_evT_{at}_{tg}", dict(rt_factor=1, until=until,
                                                  sims=[T("A", 2, set_events=True)], conns=[],
                                                  events=[("A", at, tg)]), [0, 1.5]))
    # three and four pending events requested in every order (the simulator's step queue holds
    # several entries at once, inserted out of order)
    for times in list(itertools.permutations((2, 4, 6))) + list(itertools.permutations((2, 3, 5, 6)))[::3]:
        tag = "".join(map(str, times))
        out.append((f"rt_ev3_{tag}", dict(rt_factor=1, until=8, sims=sims, conns=conns,
                                          events=[("A", 0.25 + 0.05 * i, t) for i, t in enumerate(times)]), [0]))
        out.append((f"rt_ev3T_{tag}", dict(rt_factor=1, until=8, sims=[T("A", 3, set_events=True)], conns=[],
                                           events=[("A", 0.25 + 0.05 * i, t) for i, t in enumerate(times)]), [0]))
    # the simulator that receives the event sits in a group (one and two levels deep), alone or
    # with a consumer in the same group
    for gname, groups in (("g", {"g": None}), ("h", {"g": None, "h": "g"})):
        for at in grid[::2]:
            for tg in ("now+1", "until-1", "until", "now"):
                out.append((f"rt_evG_{gname}_{at}_{tg}", dict(
                    rt_factor=1, until=until, groups=groups,
                    sims=[E("A", set_events=True, emit_default=0, group=gname), E("B", group="g")],
                    conns=conns, events=[("A", at, tg)]), [0]))
                out.append((f"rt_evGT_{gname}_{at}_{tg}", dict(
                    rt_factor=1, until=until, groups=groups,
                    sims=[T("A", 2, set_events=True, group=gname)], conns=[],
                    events=[("A", at, tg)]), [0]))
    # outside real-time mode
    for tg in ("now+1", "until-1", "until", "until+3"):
        out.append((f"nonrt_event_{tg}", dict(until=3, sims=[E("A", set_events=True, init_event=0,
                                                               next=[1, 1])],
                                              conns=[], events=[("A", 0, tg)]), [0]))
    return out


def _work(job):
    name, scen, alphabet = job
    out = []
    n = 0
    slow_total = 0
    sample = None
    try:
        for strict in (False, True):
            if not scen.get("rt_factor") and strict:
                continue
            for choices, (run, res, viol, lats) in all_executions(
                    lambda ch: execute(scen, strict, ch, alphabet), max_exec=20000):
                n += 1
                vs, nslow = judge(scen, strict, run, res, viol, lats)
                slow_total += nslow
                if not strict and scen.get("rt_factor"):
                    vs += compare_strict(scen, choices, alphabet)
                    n += 2
                for v in vs:
                    v.update(case=dict(name=name, scen=scen, strict=strict, choices=choices,
                                       alphabet=alphabet), msg=f"{name} strict={strict} lat={lats}: {v['msg']}")
                out.extend(vs)
                if sample is None and len(choices) > 2:
                    sample = dict(scenario=name, strict=strict, latencies=lats, result=list(res),
                                  begins=[(e[1], e[3], round(t, 4)) for e, t in zip(run.trace, run.times)
                                          if e[0] == "B"])
    except Exception as e:  # noqa: BLE001
        import traceback
        return dict(error=repr(e)[:200] + traceback.format_exc()[-800:], name=name)
    return dict(n=n, viol=out, slow=slow_total, name=name, sample=sample)


# ---- C07 in real-time mode: promises vs. external events of ancestors ---------------------------
def c07_jobs(tier):
    return [(n, sc, al) for n, sc, al in event_scenarios(tier) if sc.get("rt_factor") and sc["conns"]]


def _c07_work(job):
    name, scen, alphabet = job
    out = []
    n = 0
    try:
        for choices, (run, res, viol, lats) in all_executions(
                lambda ch: execute(scen, False, ch, alphabet), max_exec=20000):
            n += 1
            for v in viol:
                if v["prop"] == "C07" and v["kind"] in ("promise-broken", "exceeds-until"):
                    v = dict(v, msg=f"{name} lat={lats}: {v['msg']}",
                             case=dict(name=name, scen=scen, strict=False, choices=choices,
                                       alphabet=alphabet, c07=True))
                    out.append(v)
    except Exception as e:  # noqa: BLE001
        import traceback
        return dict(error=repr(e)[:200] + traceback.format_exc()[-800:], name=name)
    return dict(n=n, viol=out, name=name)


def c07_check(rep, tier):
    """run the real-time scenarios with external events under the C07 monitor; returns
    (executions, error-or-None)"""
    nproc = int(os.environ.get("VERIF_PROCS", "16"))
    total = 0
    seen = {}
    with mp.get_context("fork").Pool(nproc) as pool:
        for res in pool.imap_unordered(_c07_work, c07_jobs(tier), chunksize=2):
            if res.get("error"):
                return total, f"{res['name']}: {res['error']}"
            total += res["n"]
            for v in res["viol"]:
                k = (v["kind"], v.get("cls"))
                seen[k] = seen.get(k, 0) + 1
                if seen[k] <= 5 or v.get("cls"):
                    rep.report(v, dict(kind="call", module="mc.rt", case=v["case"]))
    return total, None


def replay(doc):
    c = doc["case"]
    if c.get("c07"):
        run, res, viol, lats = execute(c["scen"], False, Chooser(c["choices"]), c["alphabet"])
        for ev, at in zip(run.trace, run.times):
            print(f"   {at:8.4f}", ev)
        hits = [v for v in viol if v["prop"] == "C07" and v["kind"] in ("promise-broken", "exceeds-until")]
        for v in hits:
            print(f"REPRODUCED property=C07 kind={v['kind']} cls={v.get('cls')}: {v['msg'][:300]}")
        return 1 if hits else 0
    run, res, viol, lats = execute(c["scen"], c["strict"], Chooser(c["choices"]), c["alphabet"])
    vs, _ = judge(c["scen"], c["strict"], run, res, viol, lats)
    if not c["strict"] and c["scen"].get("rt_factor"):
        vs += compare_strict(c["scen"], c["choices"], c["alphabet"])
    for e, t in zip(run.trace, run.times):
        print(f"   {t:8.4f}", e)
    print("result", res, "logs", run.logs[:4])
    want = doc["violation"]["kind"]
    hit = [v for v in vs if v["kind"] == want]
    for v in hit:
        print("REPRODUCED", v["kind"], v["msg"][:300])
    return 1 if hit else 0


def check(prop, tier):
    t0 = time.time()
    jobs = pacing_scenarios(tier) + event_scenarios(tier)
    rep = findings.Reporter("C17")
    kinds = {}
    total = 0
    samples = []
    nproc = int(os.environ.get("VERIF_PROCS", "16"))
    with mp.get_context("fork").Pool(nproc) as pool:
        for r in pool.imap_unordered(_work, jobs, chunksize=2):
            if r.get("error"):
                print("MACHINERY-ERROR", r["name"], r["error"])
                return 2
            total += r["n"]
            if r["sample"] and len(samples) < 3:
                samples.append(r["sample"])
            for v in r["viol"]:
                sg = (v["kind"], v["cls"])
                kinds[sg] = kinds.get(sg, 0) + 1
                if kinds[sg] <= 5 or v["cls"]:
                    rep.report(v, dict(kind="call", module="mc.rt", case=v["case"]))
    rc = rep.finish()
    cov = dict(
        states=total, transitions=total, traces_validated_against_impl=total,
        evaluations=total, distinct_nontrivial=len(jobs),
        rule="one evaluation = one complete real-time run on the virtual clock under one assignment "
             "of step latencies (and one placement of external events); distinct = scenarios",
        samples=samples, exhaustive=True, scenarios=len(jobs),
        violation_kinds={f"{k[0]}|{k[1]}": c for k, c in kinds.items()},
        known_findings_hit={k: v[1] for k, v in rep.known_hits.items()},
    )
    evidence.write("C17", tier, "model_checking", cov,
                   ["virtual clock: perf_counter = virtual time + n*2^-30 (strictly increasing)",
                    "latency alphabet {instant, 0.5f, 1.5f, 2.5f} awaited, {0.5f, 1.5f, 2.5f} blocking the "
                    "event loop; events on a grid of f/2",
                    "only future events (t greater than the current real-time step index) are injected",
                    "external events for simulators outside and inside groups"],
                   time.time() - t0, len(rep.violations))
    print(f"C17 {tier}: scenarios={len(jobs)} executions={total} violations={len(rep.violations)} "
          f"known={sum(v[1] for v in rep.known_hits.values())} wall={time.time() - t0:.1f}s")
    return rc
