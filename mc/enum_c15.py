"""C15 -- API version adaptation: every version string of a closed list x init signature x
step signature x type present/absent x configured api_version x transport is started and
run; what the simulator receives is compared with a table written from the statement.
Then a two-simulator scenario is explored (all schedules) with the old simulator in producer
and in consumer position; its (time, inputs) view must equal the current-version stub's."""
from __future__ import annotations

import contextlib
import io
import json
import multiprocessing as mp
import os
import time

from . import env, evidence, findings  # noqa: F401
from .harness import Run

VERSIONS = [None, "1", "2", "2.1", "2.2", "2.2.1", "2.3", "2.10", "3", "3.0", "3.0.1", "3.1",
            "4", "4.0", "10"]
INITS = ["tr", "kw", "none"]
STEPS = ["a3", "opt", "var", "a2"]


def vlist(v):
    return [1] if v is None else [int(x) for x in v.split(".")]


def cases():
    for v in VERSIONS:
        for i in INITS:
            for s in STEPS:
                for omit in (False, True):
                    for cfgv in ("none", "equal", "different"):
                        for tr in ("local", "mem"):
                            yield dict(version=v, init=i, step=s, omit_type=omit, cfgv=cfgv, transport=tr)


def expectation(c):
    """returns ('skip', why) | ('reject', why) | ('either', why) | ('accept', table)"""
    v = vlist(c["version"])
    compliant = c["init"] in ("tr", "kw") and c["step"] in ("a3", "opt")
    if v < [3] and c["step"] == "a3":
        return ("skip", "a simulator of version < 3 cannot require max_advance")
    if v >= [3] and c["omit_type"]:
        return ("skip", "type is mandatory from version 3 on (not part of the statement)")
    if v >= [4]:
        return ("reject", "version >= 4")
    if c["cfgv"] == "different":
        return ("reject", "configured api_version differs")
    if c["transport"] == "local" and v >= [3] and not compliant:
        if c["step"] == "var" and c["init"] != "none":
            return ("either", "*args step can take max_advance; mosaik's signature check says no")
        return ("reject", "in-process simulator claims v3 without the v3 signatures")
    if c["transport"] == "mem" and v >= [3] and c["step"] == "a2":
        return ("skip", "remote v3 simulator whose step cannot take max_advance is itself broken")
    return ("accept", dict(arity=2 if v < [3] else 3, setup_done=v >= [2, 2],
                           no_time_resolution=c["init"] == "none"))


def scen_for(c, sid="S"):
    v = c["version"]
    cfgv = None
    if c["cfgv"] == "equal":
        cfgv = v if v is not None else "1"
    elif c["cfgv"] == "different":
        cfgv = "2" if vlist(v) != [2] else "3"
    s = dict(sid=sid, type="time-based", step=1, cls=f"Ver_{c['init']}_{c['step']}",
             api_version=v, omit_type=c["omit_type"])
    if cfgv:
        s["cfg_version"] = cfgv
    return s


def judge(c):
    exp = expectation(c)
    if exp[0] == "skip":
        return [], exp
    scen = dict(until=2, sims=[scen_for(c)], conns=[])
    run = Run(scen, dict(gates=(), transport=c["transport"]), None)
    with contextlib.redirect_stdout(io.StringIO()):
        res = run.execute()
    out = []

    def add(kind, msg):
        out.append(dict(prop="C15", kind=kind, cls=None, msg=f"{msg}: {c}", case=c))
    rejected = res[0] == "build-exc"
    if exp[0] == "reject":
        if not rejected:
            add("not-rejected", f"expected rejection ({exp[1]}) but start succeeded, run -> {res[:2]}")
        elif res[1] != "ScenarioError":
            add("rejected-with-wrong-error", f"expected ScenarioError ({exp[1]}) but got {res[1:]}")
        return out, exp
    if exp[0] == "either" and rejected:
        if res[1] != "ScenarioError":
            add("rejected-with-wrong-error", f"{res[1:]}")
        return out, exp
    if rejected:
        add("wrongly-rejected", f"start raised {res[1:]}")
        return out, exp
    if res[0] != "ok":
        add("run-failed", f"run() -> {res}")
        return out, exp
    tab = exp[1] if exp[0] == "accept" else dict(arity=3, setup_done=True, no_time_resolution=False)
    ev = run.trace
    arities = sorted({e[3] for e in ev if e[0] == "A"})
    if arities != [tab["arity"]]:
        add("wrong-step-arity", f"step received {arities} arguments, expected {tab['arity']}")
    got_sd = any(e[0] == "U" for e in ev)
    if got_sd != tab["setup_done"]:
        add("setup-done", f"setup_done {'sent' if got_sd else 'not sent'}")
    init = [e for e in ev if e[0] == "I"]
    if tab["no_time_resolution"] and init and init[0][2]:
        add("time-resolution-sent", "init received time_resolution")
    steps = [e[3] for e in ev if e[0] == "B"]
    if steps != [0, 1]:
        add("not-time-based", f"steps at {steps}, expected [0, 1] (type defaults to time-based)")
    return out, exp


def _work(chunk):
    out = []
    n = acc = skipped = 0
    try:
        for c in chunk:
            v, exp = judge(c)
            if exp[0] == "skip":
                skipped += 1
                continue
            n += 1
            acc += exp[0] == "accept"
            out.extend(v)
    except Exception as e:  # noqa: BLE001
        import traceback
        return dict(error=repr(e)[:200] + traceback.format_exc()[-700:])
    return dict(n=n, accepted=acc, skipped=skipped, viol=out)


# ---- run-time behaviour of old-version simulators beyond the fault-free time-based case ----------
def runtime_cases():
    out = []
    for v in (None, "2", "2.2", "2.10", "3.0"):
        for tr in ("local", "mem"):
            for stype in ("event-based", "hybrid"):
                out.append(dict(kind="announced-type", version=v, transport=tr, stype=stype))
            for exc in ("ValueError", "KeyError"):
                out.append(dict(kind="step-raises", version=v, transport=tr, exc=exc))
    # extra methods (a request kind of every API version): names around the request names that
    # some versions do not know
    for v in (None, "1", "2", "2.1", "2.2", "2.3", "3.0"):
        for tr in ("local", "mem"):
            out.append(dict(kind="extra-methods", version=v, transport=tr, names=EXTRA_NAMES))
    return out


EXTRA_NAMES = ["setup", "done", "set", "up", "setup_done_2", "step_x", "ste", "get", "data",
               "get_data_x", "init_x", "sto", "create_x", "max_advance", "e", "p"]


def judge_runtime(c):
    v = c["version"]
    old = vlist(v) < [3]
    cls = "Ver_kw_opt" if old else "Ver_tr_a3"
    out = []

    def add(kind, msg):
        out.append(dict(prop="C15", kind=kind, cls=None, msg=f"{msg}: {c}", case=dict(c, runtime=True)))
    if c["kind"] == "extra-methods":
        s = dict(sid="S", type="time-based", step=1, cls=cls, api_version=v, omit_type=False,
                 extra_methods=c["names"], extra_calls=c["names"])
        scen = dict(until=2, sims=[s], conns=[])
        run = Run(scen, dict(gates=(), transport=c["transport"]), None)
        with contextlib.redirect_stdout(io.StringIO()):
            res = run.execute()
        reached = [e[2] for e in run.trace if e[0] == "XM"]
        args = {e[2]: e[3] for e in run.trace if e[0] == "XM"}
        answers = {e[2]: e[3:] for e in run.trace if e[0] == "XR"}
        if res[0] != "ok":
            add("run-failed", f"run() -> {res}")
        for n in c["names"]:
            if reached.count(n) != 1:
                add("extra-method-not-forwarded",
                    f"extra method {n!r} reached the simulator {reached.count(n)} times")
            elif args[n] != json.dumps([[7], {"key": "v"}], sort_keys=True):
                add("extra-method-arguments-changed", f"{n!r} was called with {args[n]}")
            if answers.get(n) != ("ok", repr(f"{n}-ret")):
                add("extra-method-answer-changed", f"{n!r} answered {answers.get(n)}")
        return out
    if c["kind"] == "announced-type":
        # an old simulator that DOES announce its type is scheduled according to it
        s = dict(sid="S", type=c["stype"], cls=cls, api_version=v, omit_type=False,
                 init_event=(1 if c["stype"] == "event-based" else None), next=[2], next_default=None)
        scen = dict(until=5, sims=[s], conns=[])
        want = [1, 3] if c["stype"] == "event-based" else [0, 2]
    else:
        s = dict(sid="S", type="time-based", step=1, cls=cls, api_version=v, omit_type=False,
                 raise_in_step={"1": c["exc"]})
        scen = dict(until=4, sims=[s], conns=[])
        want = [0, 1]
    run = Run(scen, dict(gates=(), transport=c["transport"]), None)
    with contextlib.redirect_stdout(io.StringIO()):
        res = run.execute()
    steps = [e[3] for e in run.trace if e[0] == "B"]
    ar = sorted({e[3] for e in run.trace if e[0] == "A"} | (
        {3} if any(e[0] == "B" and e[5] is not None for e in run.trace) and old else set()))
    if steps != want:
        add("old-simulator-scheduled-differently", f"steps at {steps}, expected {want} (run -> {res[:2]})")
    if old and any(e[0] == "B" and e[5] is not None for e in run.trace):
        add("wrong-step-arity", "an old-version simulator received a step request with max_advance")
    if c["kind"] == "announced-type" and res[0] != "ok":
        add("run-failed", f"run() -> {res}")
    if c["kind"] == "step-raises":
        logged = any(lv == "ERROR" for lv, _ in run.logs)
        if res[0] == "ok" and not (c["transport"] == "mem" and logged):
            # (a remote simulator's failure reply is logged and run() returns)
            add("error-of-old-simulator-swallowed", "run() returned normally although step 1 raised")
    return out


def _runtime_work(c):
    try:
        return dict(viol=judge_runtime(c))
    except Exception as e:  # noqa: BLE001
        import traceback
        return dict(error=repr(e)[:200] + traceback.format_exc()[-700:])


# ---- two classes with the same __name__, started in one process in both orders ----------------
def same_name_cases():
    out = []
    for order in (("SameNameOld", "SameNameNew"), ("SameNameNew", "SameNameOld")):
        for tr in ("local",):
            out.append(dict(order=list(order), transport=tr))
    return out


def judge_same_name(c):
    """each of the two simulators must be treated according to its own signatures/version"""
    sims = []
    for i, cls in enumerate(c["order"]):
        old = cls.endswith("Old")
        sims.append(dict(sid=f"S{i}", type="time-based", step=1, cls=cls,
                         api_version="2.2" if old else "3.0", omit_type=False))
    scen = dict(until=2, sims=sims, conns=[])
    run = Run(scen, dict(gates=(), transport=c["transport"]), None)
    with contextlib.redirect_stdout(io.StringIO()):
        res = run.execute()
    out = []

    def add(kind, msg):
        out.append(dict(prop="C15", kind=kind, cls=None, msg=f"{msg}: {c}", case=dict(c, same_name=True)))
    if res[0] != "ok":
        add("same-name-classes-confused", f"start/run of two classes named 'SameName' -> {res}")
        return out
    for i, cls in enumerate(c["order"]):
        old = cls.endswith("Old")
        ar = sorted({e[3] for e in run.trace if e[0] == "A" and e[1] == f"S{i}"})
        if ar != [2 if old else 3]:
            add("same-name-classes-confused", f"S{i} ({cls}) received step with {ar} arguments")
        init = [e for e in run.trace if e[0] == "I" and e[1] == f"S{i}"]
        if old and init and init[0][2]:
            add("same-name-classes-confused", f"S{i} ({cls}) received time_resolution")
        if not old and init and not init[0][2]:
            add("same-name-classes-confused", f"S{i} ({cls}, current API) did not receive time_resolution")
    return out


# ---- several simulators started from ONE sim_config entry ----------------------------------------
def shared_entry_cases():
    out = []
    for cfgv in ("2", "2.2", "2.10", "3.0", "3.1"):
        for second in ("1", "2", "2.1", "2.2", "2.10", "3.0", "3.1", None):
            for n_before in (1, 2):
                for tr in ("local", "mem"):
                    out.append(dict(cfgv=cfgv, second=second, n_before=n_before, transport=tr))
    return out


def judge_shared_entry(c):
    """`n_before` simulators announcing exactly the configured version are started from the entry
    (accepted), then one more announcing `second`: rejected iff it differs from the configured one
    (versions that differ only by a trailing .0 are not asserted either way)"""
    def sim(i, v):
        old = vlist(v) < [3]
        return dict(sid=f"S{i}", type="time-based", step=1, cls="Ver_kw_opt" if old else "Ver_tr_a3",
                    api_version=v, omit_type=False, cfg_version=c["cfgv"], entry="Shared")
    sims = [sim(i, c["cfgv"]) for i in range(c["n_before"])] + [sim(c["n_before"], c["second"])]
    run = Run(dict(until=2, sims=sims, conns=[]), dict(gates=(), transport=c["transport"]), None)
    with contextlib.redirect_stdout(io.StringIO()):
        res = run.execute()
    out = []

    def add(kind, msg):
        out.append(dict(prop="C15", kind=kind, cls=None, msg=f"{msg}: {c}", case=dict(c, shared_entry=True)))
    started = sorted({e[1] for e in run.trace if e[0] == "I"})
    a, b = vlist(c["second"]), vlist(c["cfgv"])
    while a and a[-1] == 0:
        a = a[:-1]
    while b and b[-1] == 0:
        b = b[:-1]
    same = vlist(c["second"]) == vlist(c["cfgv"])
    if same:
        if res[0] != "ok":
            add("wrongly-rejected", f"all simulators announce the configured version, run -> {res[:3]}")
    elif a == b:
        pass
    else:
        if res[0] != "build-exc":
            add("not-rejected", f"simulator no. {c['n_before'] + 1} started from the entry announces "
                                f"{c['second']!r}, the entry is configured for {c['cfgv']!r}: expected "
                                f"rejection, run -> {res[:2]}")
        elif res[1] != "ScenarioError":
            add("rejected-with-wrong-error", f"expected ScenarioError but got {res[1:]}")
    return out


def _shared_entry_work(c):
    try:
        return dict(viol=judge_shared_entry(c))
    except Exception as e:  # noqa: BLE001
        import traceback
        return dict(error=repr(e)[:200] + traceback.format_exc()[-700:])


# ---- same scheduling and data as a current-version simulator --------------------------------
def view_jobs():
    jobs = []
    combos = [(None, "none", "a2"), ("1", "kw", "opt"), ("2", "none", "var"), ("2.2", "tr", "opt"),
              ("2.10", "none", "a2"), ("3.0", "tr", "a3"), ("3.1", "kw", "opt")]
    for v, i, s in combos:
        for pos in ("producer", "consumer", "middle"):
            for tr in ("local", "mem"):
                c = dict(version=v, init=i, step=s, omit_type=vlist(v) < [3], cfgv="none", transport=tr)
                jobs.append((c, pos))
    return jobs


def view_scen(c, pos):
    from .scenarios import T, C
    sims = [T("A"), T("B", 2), T("Cc")]
    idx = {"producer": 0, "middle": 1, "consumer": 2}[pos]
    if c is not None:
        old = scen_for(c, sims[idx]["sid"])
        old["step"] = sims[idx]["step"]
        sims[idx] = old
    return dict(until=4, sims=sims, conns=[C("A", "B", "po", "mi"), C("B", "Cc", "po", "mi"),
                                           C("Cc", "A", "po", "mi", shift=1, init=True)])


def _same_name_work(c):
    try:
        return dict(viol=judge_same_name(c))
    except Exception as e:  # noqa: BLE001
        import traceback
        return dict(error=repr(e)[:200] + traceback.format_exc()[-700:])


def _view_work(job):
    from . import explorer
    c, pos = job
    try:
        with contextlib.redirect_stdout(io.StringIO()):
            r = explorer.explore(view_scen(c, pos), dict(transport=c["transport"] if c else "local",
                                                         lazy=False), budget=1, max_exec=3000)
            ref = explorer.explore(view_scen(None, pos), dict(lazy=False), budget=0, max_exec=3000)
    except Exception as e:  # noqa: BLE001
        import traceback
        return dict(error=repr(e)[:200] + traceback.format_exc()[-700:])
    out = []
    case = dict(c, position=pos) if c else None
    vs = {v for v, _ in r["views"]}
    rv = {v for v, _ in ref["views"]}
    if vs != rv or len(vs) != 1:
        out.append(dict(prop="C15", kind="view-differs", cls=None, case=case,
                        msg=f"old simulator as {pos}: views {sorted(vs)[:2]} vs current-version "
                            f"{sorted(rv)[:2]}: {case}"))
    for v in r["viols"]:
        if v["prop"] in ("C01", "C02", "C03", "C05"):
            out.append(dict(prop="C15", kind="scheduling-differs", cls=None, case=case,
                            msg=f"old simulator as {pos}: [{v['prop']}/{v['kind']}] {v['msg']}: {case}"))
    return dict(execs=r["execs"] + ref["execs"], states=r["states"], trans=r["transitions"], viol=out)


def replay(doc):
    c = dict(doc["case"])
    if c.pop("runtime", None):
        v = judge_runtime(c)
        for x in v:
            print("REPRODUCED", x["kind"], x["msg"][:400])
        return 1 if v else 0
    if c.pop("shared_entry", None):
        v = judge_shared_entry(c)
        for x in v:
            print("REPRODUCED", x["kind"], x["msg"][:400])
        return 1 if v else 0
    if c.pop("same_name", None):
        v = judge_same_name(c)
        for x in v:
            print("REPRODUCED", x["kind"], x["msg"][:400])
        return 1 if v else 0
    pos = c.pop("position", None)
    if pos:
        res = _view_work((c, pos))
        v = res.get("viol", [])
    else:
        v, _ = judge(c)
    for x in v:
        print("REPRODUCED", x["kind"], x["msg"][:400])
    return 1 if v else 0


def check(prop, tier):
    t0 = time.time()
    cs = list(cases())
    chunks = [cs[i:i + 60] for i in range(0, len(cs), 60)]
    rep = findings.Reporter("C15")
    kinds = {}
    tot = dict(n=0, accepted=0, skipped=0)
    sv = dict(execs=0, states=0, trans=0, jobs=0)
    nproc = int(os.environ.get("VERIF_PROCS", "16"))
    with mp.get_context("fork").Pool(nproc) as pool:
        for res in pool.imap_unordered(_work, chunks, chunksize=1):
            if res.get("error"):
                print("MACHINERY-ERROR", res["error"])
                return 2
            for k in tot:
                tot[k] += res[k]
            for v in res["viol"]:
                kinds[v["kind"]] = kinds.get(v["kind"], 0) + 1
                if kinds[v["kind"]] <= 5:
                    rep.report(v, dict(kind="call", module="mc.enum_c15", case=v["case"]))
        for res in pool.imap_unordered(_runtime_work, runtime_cases(), chunksize=1):
            if res.get("error"):
                print("MACHINERY-ERROR", res["error"])
                return 2
            tot["n"] += 1
            tot["accepted"] += 1
            for v in res["viol"]:
                kinds[v["kind"]] = kinds.get(v["kind"], 0) + 1
                if kinds[v["kind"]] <= 5:
                    rep.report(v, dict(kind="call", module="mc.enum_c15", case=v["case"]))
        for res in pool.imap_unordered(_same_name_work, same_name_cases(), chunksize=1):
            if res.get("error"):
                print("MACHINERY-ERROR", res["error"])
                return 2
            tot["n"] += 1
            tot["accepted"] += 1
            for v in res["viol"]:
                kinds[v["kind"]] = kinds.get(v["kind"], 0) + 1
                if kinds[v["kind"]] <= 5:
                    rep.report(v, dict(kind="call", module="mc.enum_c15", case=v["case"]))
        for res in pool.imap_unordered(_shared_entry_work, shared_entry_cases(), chunksize=4):
            if res.get("error"):
                print("MACHINERY-ERROR", res["error"])
                return 2
            tot["n"] += 1
            for v in res["viol"]:
                kinds[v["kind"]] = kinds.get(v["kind"], 0) + 1
                if kinds[v["kind"]] <= 5:
                    rep.report(v, dict(kind="call", module="mc.enum_c15", case=v["case"]))
        for res in pool.imap_unordered(_view_work, view_jobs(), chunksize=1):
            if res.get("error"):
                print("MACHINERY-ERROR", res["error"])
                return 2
            sv["jobs"] += 1
            for k in ("execs", "states", "trans"):
                sv[k] += res[k]
            for v in res["viol"]:
                kinds[v["kind"]] = kinds.get(v["kind"], 0) + 1
                if kinds[v["kind"]] <= 5:
                    rep.report(v, dict(kind="call", module="mc.enum_c15", case=v["case"]))
    rc = rep.finish()
    cov = dict(
        states=tot["n"] + sv["states"], transitions=tot["n"] + sv["trans"],
        traces_validated_against_impl=tot["n"] + sv["execs"],
        evaluations=tot["n"] + sv["execs"], distinct_nontrivial=tot["accepted"],
        rule="one evaluation = start + run of one (version, signatures, type, configured version, "
             "transport) combination, or one execution of the view scenario; non-trivial = the "
             "combination must be accepted",
        samples=[dict(case=dict(version="2.1", init="none", step="a2", omit_type=True, cfgv="none",
                                transport="local"),
                      expect=dict(arity=2, setup_done=False, no_time_resolution=True))],
        exhaustive=True, starts=tot["n"], must_accept=tot["accepted"], excluded=tot["skipped"],
        view_scenarios=sv, violation_kinds=kinds,
    )
    evidence.write("C15", tier, "model_checking", cov,
                   ["closed list of version strings: " + ", ".join(str(v) for v in VERSIONS),
                    "combinations invalid for their own announced version are excluded "
                    "(required max_advance before v3; missing type from v3 on; remote v3 with a "
                    "two-argument step)",
                    "a *args step on an in-process v3 simulator may be accepted or rejected"],
                   time.time() - t0, len(rep.violations))
    print(f"C15 {tier}: starts={tot['n']} must-accept={tot['accepted']} excluded={tot['skipped']} "
          f"views={sv} violations={len(rep.violations)} wall={time.time() - t0:.1f}s")
    return rc
