"""Scenario families for the scheduler exploration.

* ``CATALOGUE``: hand-picked scenarios, one per shortcut visible in the code
  (quick tier).
* ``generated(n, maxconn, ...)``: the enumerated family (thorough tier).

T/E/H = time-based / event-based / hybrid stub.  See stubs.py for the meaning
of the behaviour fields.
"""
from __future__ import annotations

import collections
import itertools
import random


def T(sid, step=1, **k):
    return dict(sid=sid, type="time-based", step=step, **k)


def E(sid, **k):
    return dict(sid=sid, type="event-based", **k)


def H(sid, **k):
    return dict(sid=sid, type="hybrid", **k)


def C(s, d, sa, da, **k):
    return dict(src=s, dst=d, sattr=sa, dattr=da, **k)


G1 = {"g": None}
S = CATALOGUE = collections.OrderedDict()

# ---- time-based chains, fan-in/out ------------------------------------------------
S["chain_TT"] = dict(until=3, sims=[T("A"), T("B")], conns=[C("A", "B", "po", "mi")])
S["chain_T2T1"] = dict(until=4, sims=[T("A", 2), T("B")], conns=[C("A", "B", "po", "mi")])
S["chain_T1T2"] = dict(until=4, sims=[T("A"), T("B", 2)], conns=[C("A", "B", "po", "mi")])
S["chain3_T"] = dict(until=3, sims=[T("A"), T("B"), T("Cc")],
                     conns=[C("A", "B", "po", "mi"), C("B", "Cc", "po", "mi")])
S["fan_in"] = dict(until=3, sims=[T("A"), T("B", 2), T("Z")],
                   conns=[C("A", "Z", "po", "mi"), C("B", "Z", "po", "mi")])
S["fast_prod_slow_cons"] = dict(until=4, sims=[T("A"), T("B", 2), T("Cc")],
                                conns=[C("A", "B", "po", "mi"), C("A", "Cc", "po", "mi")])
# ---- an ancestor in flight while a third simulator finishes (F1) ------------------
S["anc_inflight"] = dict(until=2, sims=[E("Cc", init_event=0, emit_default=0), E("D"), T("X")],
                         conns=[C("Cc", "D", "eo", "ti")])
S["E_chain3"] = dict(until=2, sims=[E("A", init_event=0, emit_default=0, next=[1]),
                                    E("B", emit_default=0), E("Cc")],
                     conns=[C("A", "B", "eo", "ti"), C("B", "Cc", "eo", "ti")])
S["E_chain3_self"] = dict(until=3, sims=[E("A", init_event=0, emit_default=0, next=[1, 1]),
                                         E("B", emit_default=0), E("Cc", emit_default=0)],
                          conns=[C("A", "B", "eo", "ti"), C("B", "Cc", "eo", "ti")])
S["diamond_E"] = dict(until=2, sims=[E("A", init_event=0, emit_default=0, next=[1]),
                                     E("B", emit_default=0), E("Cc", emit_default=0), E("D")],
                      conns=[C("A", "B", "eo", "ti"), C("A", "Cc", "eo", "ti"),
                             C("B", "D", "eo", "ti"), C("Cc", "D", "eo", "ti")])
S["insert_earlier"] = dict(until=4, sims=[E("A", init_event=0, emit_default=0, next=[1, 1]),
                                          E("B", init_event=0, emit_default=0, next=[3]),
                                          E("Cc", emit_default=0), E("D")],
                           conns=[C("A", "B", "eo", "ti"), C("B", "Cc", "eo", "ti"),
                                  C("B", "D", "eo", "ti"), C("Cc", "D", "eo", "ti")])
# ---- output times in the future / beyond the end ----------------------------------
S["future_out"] = dict(until=4, sims=[E("A", init_event=0, emit=[2]), E("B", emit_default=0), E("Cc")],
                       conns=[C("A", "B", "eo", "ti"), C("B", "Cc", "eo", "ti")])
S["trig_future_then_now"] = dict(until=4, sims=[E("A", init_event=0, emit=[3, 0], next=[1]),
                                                E("B", emit_default=0), E("D")],
                                 conns=[C("A", "B", "eo", "ti"), C("B", "D", "eo", "ti")])
S["beyond_until"] = dict(until=3, sims=[E("A", init_event=0, emit=[5, 3, 2], next=[1, 1]),
                                        E("B", emit_default=0), E("Cc")],
                         conns=[C("A", "B", "eo", "ti"), C("B", "Cc", "eo", "ti")])
S["beyond_until_sync"] = dict(until=3, sims=[E("A", init_event=0, emit=[5, 3, 2], next=[1, 1]), E("B")],
                              conns=[C("A", "B", "eo", "ti")])
# ---- cycles closed by time-shifted connections --------------------------------------
S["shift_cycle"] = dict(until=3, sims=[T("A"), T("B")],
                        conns=[C("A", "B", "po", "mi"), C("B", "A", "po", "mi", shift=1, init=True)])
S["E_shift_loop"] = dict(until=3, sims=[E("A", init_event=0, emit_default=0), E("B", emit_default=0)],
                         conns=[C("A", "B", "eo", "ti"), C("B", "A", "eo", "ti", shift=1)])
S["shift_sparse"] = dict(until=6, sims=[T("A", 4), T("B")],
                         conns=[C("A", "B", "po", "mi", shift=1, init=True)])
S["shift2_sparse"] = dict(until=7, sims=[T("A", 4), T("B")],
                          conns=[C("A", "B", "po", "mi", shift=2, init=True)])
S["shift2_dense"] = dict(until=5, sims=[T("A"), T("B")],
                         conns=[C("A", "B", "po", "mi", shift=2, init=True)])
S["two_delays_same_pair"] = dict(until=3, sims=[T("A"), H("B", next_default=1)],
                                 conns=[C("A", "B", "po", "mi"),
                                        C("A", "B", "po", "ti", shift=1)])
S["two_trigger_delays"] = dict(until=3, sims=[E("A", init_event=0, emit_default=0, next=[1, 1]),
                                             E("B", emit_default=0), E("Cc")],
                               conns=[C("A", "B", "eo", "ti"), C("A", "B", "eo", "ti2", shift=1),
                                      C("B", "Cc", "eo", "ti")])
S["two_trigger_delays_rev"] = dict(until=3, sims=[E("A", init_event=0, emit_default=0, next=[1, 1]),
                                                 E("B", emit_default=0), E("Cc")],
                                   conns=[C("A", "B", "eo", "ti2", shift=1), C("A", "B", "eo", "ti"),
                                          C("B", "Cc", "eo", "ti")])
# ... the same pair of connections BEHIND a triggering ancestor: the delay accumulated from X to B
# must be X->A plus the smaller of the two
S["two_trigger_delays_upstream"] = dict(
    until=4, sims=[T("X"), E("A", emit_default=0), E("B", emit_default=0)],
    conns=[C("X", "A", "po", "ti"), C("A", "B", "eo", "ti"), C("A", "B", "eo", "ti2", shift=1)])
S["two_trigger_delays_upstream_rev"] = dict(
    until=4, sims=[T("X"), E("A", emit_default=0), E("B", emit_default=0)],
    conns=[C("X", "A", "po", "ti"), C("A", "B", "eo", "ti2", shift=1), C("A", "B", "eo", "ti")])
# a direct trigger edge that is longer than an indirect path between the same two simulators
S["two_paths_shift2"] = dict(until=4, sims=[E("A", init_event=0, emit=[0, None, None, 0], next=[1, 1, 1]),
                                            E("R", init_event=0, emit_default=0), E("Z")],
                             conns=[C("A", "Z", "eo", "ti", shift=2), C("A", "R", "eo", "ti"),
                                    C("R", "Z", "eo", "ti2")])
# max_advance near the end of the simulation with a large time shift
S["shift3_near_end"] = dict(until=4, sims=[E("A", init_event=0, emit_default=0, next=[3]),
                                           T("P"), H("Z")],
                            conns=[C("A", "Z", "eo", "ti", shift=3), C("P", "Z", "po", "mi")])
# an ordinary and a time_shifted=2 connection between one pair (pulled with the cache on)
S["two_delays_shift2_pair"] = dict(until=5, sims=[T("A"), T("B")],
                                   conns=[C("A", "B", "po", "mi"),
                                          C("A", "B", "po", "po", shift=2, init=True)])
S["two_delays_shift2_pair_rev"] = dict(until=5, sims=[T("A"), T("B")],
                                       conns=[C("A", "B", "po", "po", shift=2, init=True),
                                              C("A", "B", "po", "mi")])
S["maxadv_inflight"] = dict(until=3, sims=[E("Cc", init_event=0, emit_default=0), E("D", init_event=0)],
                            conns=[C("Cc", "D", "eo", "ti", shift=1)])
# scenarios with an unresolved cycle (run() must refuse them; if the cycle check lets one through,
# it must still not hang)
S["cycle_shift_then_plain"] = dict(until=2, max_budget=0, sims=[T("A"), T("B")],
                                   conns=[C("A", "B", "po", "mi", shift=1, init=True),
                                          C("A", "B", "po", "po"), C("B", "A", "po", "mi")])
S["cycle_shift_then_plain_E"] = dict(until=3, max_budget=0,
                                     sims=[E("A", init_event=0, emit_default=0, next=[1]),
                                           E("B", emit_default=0)],
                                     conns=[C("A", "B", "eo", "ti", shift=1), C("A", "B", "eo", "ti2"),
                                            C("B", "A", "eo", "ti")])
S["cycle_plain_then_shift"] = dict(until=2, max_budget=0, sims=[T("A"), T("B")],
                                   conns=[C("A", "B", "po", "po"),
                                          C("A", "B", "po", "mi", shift=1, init=True),
                                          C("B", "A", "po", "mi")])
S["cycle_weak_leaves_group"] = dict(until=2, max_budget=0, groups=G1,
                                    sims=[E("A", group="g", init_event=0, emit_default=0),
                                          E("B", group="g", emit_default=0), E("O", emit_default=0)],
                                    conns=[C("A", "B", "eo", "ti", weak=True), C("B", "O", "eo", "ti"),
                                           C("O", "A", "eo", "ti")])
# ---- mixed inputs -------------------------------------------------------------------
S["hyb_mixed_inputs"] = dict(until=3, sims=[T("A"), E("Q", init_event=0, emit=[0]), H("B", next_default=1)],
                             conns=[C("A", "B", "po", "mi"), C("Q", "B", "eo", "ti")])
# a hybrid producer stamping its whole reply (persistent value included) with a future time
# (output times monotone in production order: otherwise "most recent value" is ambiguous, A5)
S["hyb_future_persistent"] = dict(until=5, sims=[H("A", emit_default=2, next_default=1), T("B"),
                                                 E("Z")],
                                  conns=[C("A", "B", "po", "mi"), C("A", "Z", "eo", "ti")])
# real-time pacing must not switch off the lazy wait
S["rt_fast_prod_slow_cons"] = dict(until=3, rt_factor=1, max_budget=0,
                                   sims=[T("A"), T("B")], conns=[C("A", "B", "po", "mi")])
# hierarchical entities: the consumer's child entity is of another model in which the roles of
# the attributes are swapped (k.mi triggers, k.ti does not)
S["child_roles"] = dict(until=4, sims=[T("A"), E("Q", init_event=1, emit=[0, None, 0], next=[1, 1]),
                                       H("B", child=True)],
                        conns=[dict(C("A", "B", "po", "ti"), deid="k"),
                               dict(C("Q", "B", "eo", "mi"), deid="k")])
# the child entity (model K: `eo` persistent, `po` an event) as a SOURCE: its event output
# triggers B sparsely, its persistent output feeds a time-based consumer
S["child_source"] = dict(until=5, sims=[H("A", child=True, next_default=2, emit=[0, None, 0]),
                                        H("B", next_default=1), T("Cc")],
                         conns=[dict(C("A", "B", "po", "ti"), seid="k"),
                                dict(C("A", "Cc", "eo", "mi"), seid="k")])
S["child_source_shift"] = dict(until=5, sims=[H("A", child=True, next_default=2, emit=[0, None, 0]),
                                              H("B", next_default=1), T("Cc")],
                               conns=[dict(C("A", "B", "po", "ti", shift=1), seid="k"),
                                      dict(C("A", "Cc", "eo", "mi", shift=1, init=True), seid="k"),
                                      C("A", "Cc", "po", "mi")])
# a persistent and an event source into ONE trigger attribute of one entity
S["hyb_mixed_same_attr"] = dict(until=3, sims=[T("A"), E("Q", init_event=0, emit=[0]),
                                               H("B", next_default=1)],
                                conns=[C("A", "B", "po", "ti"), C("Q", "B", "eo", "ti")])
# simulators that legitimately produce the value None
S["none_values"] = dict(until=4, sims=[T("A", none_at=[1]), T("B"),
                                       E("Q", init_event=0, emit_default=0, next=[1, 1], none_at=[1]),
                                       H("Z")],
                        conns=[C("A", "B", "po", "mi"), C("Q", "Z", "eo", "ti"), C("A", "Z", "po", "mi")])
S["two_delays_same_pair_rev"] = dict(until=3, sims=[T("A"), H("B", next_default=1)],
                                     conns=[C("A", "B", "po", "ti", shift=1), C("A", "B", "po", "mi")])
S["two_events_same_step"] = dict(
    until=4, sims=[E("A", init_event=0, emit=[2, 1], next=[1]), T("B", 2),
                   E("Q", init_event=0, emit=[2]), H("Z", next_default=None)],
    conns=[C("A", "Z", "eo", "ti"), C("Q", "Z", "eo", "ti"), C("B", "Z", "po", "mi")])
S["T_to_H_trigger"] = dict(until=3, sims=[T("A"), H("B", emit_default=0), E("Cc")],
                           conns=[C("A", "B", "po", "ti"), C("B", "Cc", "eo", "ti")])
# ---- initial data of several connections from one source attribute (F14, F15) -------------
S["weak_and_shift_init"] = dict(until=3, groups=G1, sims=[T("A", group="g"), T("B", group="g")],
                                conns=[C("A", "B", "po", "mi", weak=True, init=True),
                                       C("A", "B", "po", "po", shift=1, init=True)])
S["init_shared_cache"] = dict(until=2, groups=G1,
                              sims=[T("A", group="g"), H("B", group="g", next_default=1)],
                              conns=[C("A", "B", "po", "ti", weak=True),
                                     C("A", "B", "po", "mi", weak=True, init=True)])
# ---- same-time loops ------------------------------------------------------------------
S["weak_loop"] = dict(until=2, max_loop=5, groups=G1,
                      sims=[E("A", group="g", init_event=0, emit=[0, 0], next=[None, None, 1]),
                            E("B", group="g", emit_default=0)],
                      conns=[C("A", "B", "eo", "ti"), C("B", "A", "eo", "ti", weak=True)])
S["weak_loop_future"] = dict(until=3, max_loop=5, groups=G1,
                             sims=[E("A", group="g", init_event=0, emit=[0, 1, 0]),
                                   E("B", group="g", emit_default=0),
                                   H("O", group="g", next_default=1)],
                             conns=[C("A", "B", "eo", "ti"), C("B", "A", "eo", "ti", weak=True),
                                    C("A", "O", "eo", "ti")])
# every time step: one answer over the weak connection, answered by an output for the *next*
# time step (made in sub-step 1); many more time steps than max_loop_iterations
S["weak_loop_future_long"] = dict(until=6, max_loop=3, groups=G1, max_budget=0,
                                  sims=[E("A", group="g", init_event=0, emit=[0], emit_default=1),
                                        E("B", group="g", emit_default=0)],
                                  conns=[C("A", "B", "eo", "ti"), C("B", "A", "eo", "ti", weak=True)])
# a member of the loop's group is fed directly and via a simulator outside the group (F21)
S["group_reentry"] = dict(until=2, max_loop=5, groups=G1,
                          sims=[E("A", group="g", init_event=0, emit=[0, 0], next=[None, None, 1]),
                                E("B", group="g", emit_default=0), E("D", group="g"),
                                E("M", emit_default=0)],
                          conns=[C("A", "B", "eo", "ti"), C("B", "A", "eo", "ti", weak=True),
                                 C("A", "D", "eo", "ti"), C("B", "M", "eo", "ti"),
                                 C("M", "D", "eo", "ti2")])
S["weak_loop_out"] = dict(until=2, max_loop=5, groups=G1,
                          sims=[H("A", group="g", emit=[0, 0], next=[None, None, 1]),
                                E("B", group="g", emit_default=0), T("D")],
                          conns=[C("A", "B", "eo", "ti"), C("B", "A", "eo", "ti", weak=True),
                                 C("A", "D", "po", "mi")])
S["weak_loop_in"] = dict(until=2, max_loop=5, groups=G1,
                         sims=[H("A", group="g", emit=[0, 0], next=[None, None, 1]),
                               E("B", group="g", emit_default=0), T("D", group="g"), T("P", 2)],
                         conns=[C("A", "B", "eo", "ti"), C("B", "A", "eo", "ti", weak=True),
                                C("A", "D", "po", "mi"), C("P", "D", "po", "mi")])
for _m in (1, 2, 3):
    for _n in (_m - 1, _m, _m + 1):
        if _n < 1:
            continue
        # A emits on its first _n sub-steps: A performs _n+1 sub-steps (the last one silent)
        S[f"loop_{_n}_max{_m}"] = dict(
            until=2, max_loop=_m, groups=G1,
            sims=[E("A", group="g", init_event=0, emit=[0] * _n, next=[None] * _n + [1]),
                  E("B", group="g", emit_default=0)],
            conns=[C("A", "B", "eo", "ti"), C("B", "A", "eo", "ti", weak=True)])
S["loop_unsettled"] = dict(until=2, max_loop=3, groups=G1,
                           sims=[E("A", group="g", init_event=0, emit_default=0),
                                 E("B", group="g", emit_default=0)],
                           conns=[C("A", "B", "eo", "ti"), C("B", "A", "eo", "ti", weak=True)])
# sub-step index inherited over a time-shifted connection inside the group (F22)
S["shift_in_group_loop"] = dict(
    until=5, max_loop=4, groups=G1,
    sims=[E("A", group="g", init_event=0, emit_default=0), E("B", group="g", emit=[0, None] * 6),
          E("Cc", group="g", emit=[None, 0] * 6)],
    conns=[C("A", "B", "eo", "ti"), C("B", "A", "eo", "ti", weak=True), C("A", "Cc", "eo", "ti"),
           C("Cc", "A", "eo", "ti2", shift=1)])
# the loop counts on an outer tier (members in sibling sub-groups of the loop's group)
S["loop_outer_tier_unsettled"] = dict(
    until=2, max_loop=3, groups={"g": None, "h": "g", "h2": "g"},
    sims=[E("A", group="h", init_event=0, emit_default=0), E("B", group="h2", emit_default=0)],
    conns=[C("A", "B", "eo", "ti"), C("B", "A", "eo", "ti", weak=True)])
S["loop_outer_tier_settles"] = dict(
    until=2, max_loop=3, groups={"g": None, "h": "g", "h2": "g"},
    sims=[E("A", group="h", init_event=0, emit=[0, 0], next=[None, None, 1]),
          E("B", group="h2", emit_default=0)],
    conns=[C("A", "B", "eo", "ti"), C("B", "A", "eo", "ti", weak=True)])
# ... and on the innermost tier of a nested group
S["loop_inner_tier_unsettled"] = dict(
    until=2, max_loop=3, groups={"g": None, "h": "g"},
    sims=[E("A", group="h", init_event=0, emit_default=0), E("B", group="h", emit_default=0),
          T("O", group="g")],
    conns=[C("A", "B", "eo", "ti"), C("B", "A", "eo", "ti", weak=True)])
# one pair with a plain non-triggering and a time-shifted triggering connection, behind a
# third simulator that triggers the source late
S["plain_nontrigger_plus_shift_trigger"] = dict(
    until=6, sims=[E("U", init_event=3, emit=[0]), H("S", next=[None, None], emit=[None, 0]),
                   H("L", next=[None, None]), T("X", 2)],
    conns=[C("U", "S", "eo", "ti"), C("S", "L", "po", "mi"), C("S", "L", "eo", "ti", shift=1)])
S["plain_nontrigger_plus_weak_trigger"] = dict(
    until=6, groups=G1,
    sims=[E("U", init_event=3, emit=[0]), H("S", group="g", next=[None, None], emit=[None, 0]),
          H("L", group="g", next=[None, None])],
    conns=[C("U", "S", "eo", "ti"), C("S", "L", "po", "mi"), C("S", "L", "eo", "ti", weak=True)])
# ---- two entities per simulator: per-entity routing, delays and triggers -------------------
def CE(s, se, d, de, sa, da, **k):
    return dict(C(s, d, sa, da, **k), seid=se, deid=de)


# the two entity pairs of one simulator pair have different delays
S["ents_split_delays"] = dict(
    until=3, sims=[T("A", ents=2), T("B", ents=2)],
    conns=[CE("A", "e", "B", "e", "po", "mi"), CE("A", "f", "B", "f", "po", "mi", shift=1, init=True)])
S["ents_split_delays_rev"] = dict(
    until=3, sims=[T("A", ents=2), T("B", ents=2)],
    conns=[CE("A", "f", "B", "f", "po", "mi", shift=1, init=True), CE("A", "e", "B", "e", "po", "mi")])
# two entities of one source feed two consumers over connections with DIFFERENT time shifts, each
# with its own initial data (the initial data of both live in the source's output cache)
S["ents_two_shifts_init"] = dict(
    until=5, sims=[T("A", ents=2), T("B"), T("Cc")],
    conns=[CE("A", "e", "B", "e", "po", "mi", shift=1, init=True),
           CE("A", "f", "Cc", "e", "po", "mi", shift=3, init=True)])
S["ents_two_shifts_init_rev"] = dict(
    until=5, sims=[T("A", ents=2), T("B"), T("Cc")],
    conns=[CE("A", "f", "Cc", "e", "po", "mi", shift=3, init=True),
           CE("A", "e", "B", "e", "po", "mi", shift=1, init=True)])
# crossed pairs; one triggering, one not; fan-in of both source entities into one attribute
S["ents_cross"] = dict(
    until=3, sims=[H("A", ents=2, next_default=2, emit=[0, None, 0]), H("B", ents=2, next=[None])],
    conns=[CE("A", "e", "B", "f", "eo", "ti"), CE("A", "f", "B", "e", "po", "mi"),
           CE("A", "f", "B", "f", "eo", "ti2", shift=1)])
S["ents_fan_in"] = dict(
    until=3, sims=[T("A", ents=2), T("B", 2), T("Z", ents=2)],
    conns=[CE("A", "e", "Z", "e", "po", "mi"), CE("A", "f", "Z", "e", "po", "mi"),
           CE("B", "e", "Z", "f", "po", "mi"), CE("A", "f", "Z", "f", "po", "mi", shift=2, init=True)])
# the two entity pairs trigger the destination with different delays; the source emits on both
# entities in every step (both connection orders)
S["ents_two_trigger_delays"] = dict(
    until=4, sims=[E("A", ents=2, init_event=0, next=[1, 1], emit_default=0), E("B", ents=2), T("X", 2)],
    conns=[CE("A", "e", "B", "e", "eo", "ti"), CE("A", "f", "B", "f", "eo", "ti", shift=1)])
S["ents_two_trigger_delays_rev"] = dict(
    until=4, sims=[E("A", ents=2, init_event=0, next=[1, 1], emit_default=0), E("B", ents=2), T("X", 2)],
    conns=[CE("A", "f", "B", "f", "eo", "ti", shift=1), CE("A", "e", "B", "e", "eo", "ti")])
# a same-time loop that runs over different entities of the two simulators
S["ents_weak_loop"] = dict(
    until=2, max_loop=4, groups=G1,
    sims=[E("A", ents=2, group="g", init_event=0, emit=[0, 0], next=[None, None, 1]),
          E("B", ents=2, group="g", emit_default=0)],
    conns=[CE("A", "e", "B", "f", "eo", "ti"), CE("B", "f", "A", "f", "eo", "ti", weak=True),
           CE("B", "e", "A", "e", "eo", "ti2", weak=True)])
# events of two entities with different delays to one destination entity, via a chain
S["ents_event_delays"] = dict(
    until=5, sims=[E("U", ents=2, init_event=0, emit=[0, 1], next=[2]), E("V", ents=2, emit_default=0),
                   E("W")],
    conns=[CE("U", "e", "V", "e", "eo", "ti"), CE("U", "f", "V", "f", "eo", "ti", shift=2),
           CE("V", "f", "W", "e", "eo", "ti"), CE("V", "e", "W", "e", "eo", "ti2", shift=1)])

# two sibling groups with a same-time loop each; the first loop hands over to the second one
# when it has settled (only then its second entity emits): neither loop reaches max_loop, the
# sum of their lengths does
for _nm, _grp in (("sibling_loops", {"g": None, "g2": None}),
                  ("sibling_loops_nested", {"o": None, "g": "o", "g2": "o"})):
    S[_nm] = dict(
        until=1, max_loop=5, groups=_grp, max_budget=0,
        sims=[E("A", ents=2, group="g", init_event=0, emit=[0, 0, 0, 0], emit_e=[1, 1, 1, None],
                emit_f=[None, None, None, 1]),
              E("B", group="g", emit_default=0),
              E("Cc", group="g2", emit=[0, 0, 0]), E("D", group="g2", emit_default=0)],
        conns=[C("A", "B", "eo", "ti"), C("B", "A", "eo", "ti", weak=True),
               CE("A", "f", "Cc", "e", "eo", "ti"),
               C("Cc", "D", "eo", "ti"), C("D", "Cc", "eo", "ti", weak=True)])
# one pair inside a group with a weak and a time-shifted triggering connection (both orders),
# loop that never settles / settles
for _nm, _cs in (("loop_weak_and_shift", [C("B", "A", "eo", "ti", weak=True), C("B", "A", "eo", "ti2", shift=1)]),
                 ("loop_shift_and_weak", [C("B", "A", "eo", "ti2", shift=1), C("B", "A", "eo", "ti", weak=True)])):
    S[_nm + "_unsettled"] = dict(
        until=2, max_loop=3, groups=G1, max_budget=0,
        sims=[E("A", group="g", init_event=0, emit_default=0), E("B", group="g", emit_default=0)],
        conns=[C("A", "B", "eo", "ti")] + _cs)
    S[_nm] = dict(
        until=3, max_loop=4, groups=G1, max_budget=0,
        sims=[E("A", group="g", init_event=0, emit=[0, 0, None] * 3), E("B", group="g", emit_default=0)],
        conns=[C("A", "B", "eo", "ti")] + _cs)
# time-based / hybrid simulators whose first step is moved by set_initial_event (it REPLACES the
# default step at 0)
S["init_event_T_H"] = dict(until=5, sims=[T("M", init_event=3), H("N", init_event=2, next_default=2), T("X", 2)],
                           conns=[C("M", "N", "po", "mi")])
# a group member that is triggered only through a weak connection (its first step of a time step
# is sub-step 1) and has a non-trigger input from a slower simulator outside all groups
S["weak_triggered_outside_input"] = dict(
    until=2, groups=G1,
    sims=[T("Sl"), E("L", group="g", init_event=0, next=[1], emit_default=0), H("Hh", group="g", next=[None, None, None])],
    conns=[C("Sl", "Hh", "po", "mi"), C("L", "Hh", "eo", "ti", weak=True)])
# a settling loop whose member is fed through TWO hops (U -> V -> A); U answers slowly while
# an unconnected simulator finishes steps
S["loop_behind_two_hops"] = dict(
    until=2, max_loop=4, groups=G1,
    sims=[E("U", init_event=0, next=[1], emit_default=0), E("V", emit_default=0),
          E("A", group="g", emit=[0, None] * 3), E("B", group="g", emit_default=0), T("X")],
    conns=[C("U", "V", "eo", "ti"), C("V", "A", "eo", "ti"), C("A", "B", "eo", "ti"),
           C("B", "A", "eo", "ti", weak=True)])
S["loop_unsettled_behind_two_hops"] = dict(
    until=2, max_loop=3, groups=G1,
    sims=[E("U", init_event=0, next=[1], emit_default=0), E("V", emit_default=0),
          E("A", group="g", emit_default=0), E("B", group="g", emit_default=0), T("X")],
    conns=[C("U", "V", "eo", "ti"), C("V", "A", "eo", "ti"), C("A", "B", "eo", "ti"),
           C("B", "A", "eo", "ti", weak=True)])
# a long run: a source that (when synchronous and started first, lazy stepping off) performs all
# its steps before the loop members have started, so that their step queue holds a dozen entries
# while the loop's sub-steps are inserted in front of them
S["long_queue_loop"] = dict(
    until=12, max_loop=4, groups=G1, max_budget=0,
    sims=[T("So"), E("A", group="g", emit=[0, None] * 12), E("B", group="g", emit_default=0)],
    conns=[C("So", "A", "po", "ti"), C("A", "B", "eo", "ti"), C("B", "A", "eo", "ti", weak=True)])
# a loop that never settles, with a consumer of the loop that was started BEFORE the loop members
S["loop_unsettled_consumer_first"] = dict(
    until=2, max_loop=3, groups=G1, order=["Mo", "B", "A"],
    sims=[E("A", group="g", init_event=0, emit_default=0), E("B", group="g", emit_default=0), E("Mo")],
    conns=[C("A", "B", "eo", "ti"), C("B", "A", "eo", "ti", weak=True), C("A", "Mo", "eo", "ti")])
# an adaptive simulator (next step = max_advance + 1) behind a time-shifted trigger whose source
# is itself triggered by a slow feeder
S["adaptive_shift_trigger"] = dict(
    until=5, max_budget=0,
    sims=[E("Fe", init_event=0, next=[1, 1, 2], emit_default=0), E("Sr", emit_default=0),
          H("Gu", adaptive=True)],
    conns=[C("Fe", "Sr", "eo", "ti"), C("Sr", "Gu", "eo", "ti", shift=1)])
S["adaptive_plain_trigger"] = dict(
    until=5, sims=[E("Fe", init_event=1, next=[2], emit_default=0), H("Gu", adaptive=True)],
    conns=[C("Fe", "Gu", "eo", "ti")])
# one pair inside a group with a plain non-triggering connection and -- connected last -- a weak
# triggering one in the SAME direction (different entities); the receiver has steps of its own
# that coincide with the sender's (both connection orders)
for _nm, _cs in (("plain_then_weak_same_dir", [CE("Co", "e", "Mo", "e", "po", "mi"), CE("Co", "f", "Mo", "f", "eo", "ti", weak=True)]),
                 ("weak_then_plain_same_dir", [CE("Co", "f", "Mo", "f", "eo", "ti", weak=True), CE("Co", "e", "Mo", "e", "po", "mi")])):
    S[_nm] = dict(until=4, max_loop=4, groups=G1,
                  sims=[H("Co", ents=2, group="g", next_default=1, emit_default=0),
                        H("Mo", ents=2, group="g", next_default=2)],
                  conns=_cs)
# loops on two levels of nested groups: neither makes max_loop iterations, together they do
S["loop_two_levels"] = dict(
    until=1, max_loop=3, groups={"g": None, "h": "g"}, max_budget=0,
    sims=[E("Co", group="g", init_event=0, emit=[0, 0]),
          E("So", group="h", emit=[0, 0, None, 0, 0]), E("Mo", group="h", emit_default=0)],
    conns=[C("Co", "So", "eo", "ti"), C("So", "Mo", "eo", "ti"),
           C("Mo", "So", "eo", "ti", weak=True), C("So", "Co", "eo", "ti2", weak=True)])
# an earlier sub-step is scheduled while the simulator already waits for a later one
S["two_weak_feeders"] = dict(
    until=1, max_loop=5, groups=G1,
    sims=[E("P", group="g", init_event=0, emit=[0]), E("X", group="g", init_event=0, emit=[0]),
          E("Y", group="g", emit_default=0), E("A", group="g")],
    conns=[C("P", "A", "eo", "ti", weak=True), C("X", "Y", "eo", "ti", weak=True),
           C("Y", "A", "eo", "ti2", weak=True)])
# a weak and (connected later) a plain connection between one pair, closed by a weak connection
S["loop_weak_then_plain"] = dict(
    until=2, max_loop=4, groups=G1,
    sims=[E("A", group="g", init_event=0, emit=[0, 0], next=[None, None, 1]),
          E("B", group="g", emit_default=0)],
    conns=[C("A", "B", "eo", "ti2", weak=True), C("A", "B", "eo", "ti"),
           C("B", "A", "eo", "ti", weak=True)])
S["loop_weak_then_plain_unsettled"] = dict(
    until=2, max_loop=4, groups=G1,
    sims=[E("A", group="g", init_event=0, emit_default=0), E("B", group="g", emit_default=0)],
    conns=[C("A", "B", "eo", "ti2", weak=True), C("A", "B", "eo", "ti"),
           C("B", "A", "eo", "ti", weak=True)])
# a loop that never settles and whose events carry the value None
S["loop_unsettled_none"] = dict(
    until=2, max_loop=3, groups=G1,
    sims=[E("A", group="g", init_event=0, emit_default=0, none_at=list(range(12))),
          E("B", group="g", emit_default=0, none_at=list(range(12)))],
    conns=[C("A", "B", "eo", "ti"), C("B", "A", "eo", "ti", weak=True)])
# a loop member always answers for the next time step: one sub-step per time step, forever
S["weak_loop_next_time"] = dict(
    until=6, max_loop=3, groups=G1,
    sims=[E("A", group="g", init_event=0, emit_default=0), E("B", group="g", emit_default=1)],
    conns=[C("A", "B", "eo", "ti"), C("B", "A", "eo", "ti", weak=True)])
S["loop3_members"] = dict(until=2, max_loop=3, groups=G1,
                          sims=[E("A", group="g", init_event=0, emit=[0, 0], next=[None, None, 1]),
                                E("B", group="g", emit_default=0), E("Cc", group="g", emit_default=0)],
                          conns=[C("A", "B", "eo", "ti"), C("B", "Cc", "eo", "ti"),
                                 C("Cc", "A", "eo", "ti", weak=True)])
S["nested_groups"] = dict(
    until=2, max_loop=3, groups={"g": None, "h": "g"},
    sims=[E("A", group="h", init_event=0, emit=[0, 0], next=[None, None, 1]),
          E("B", group="h", emit_default=0),
          E("O", group="g", emit=[0]), T("R")],
    conns=[C("A", "B", "eo", "ti"), C("B", "A", "eo", "ti", weak=True),
           C("B", "O", "eo", "ti"), C("O", "A", "eo", "ti", weak=True)])
S["sibling_groups"] = dict(
    until=2, max_loop=4, groups={"g": None, "g2": None},
    sims=[E("A", group="g", init_event=0, emit=[0, 0], next=[None, None, 1]),
          E("B", group="g", emit=[0, 0]),
          E("P", group="g2", emit=[0]), E("Q", group="g2", emit=[0]), E("R", group="g2")],
    conns=[C("A", "B", "eo", "ti"), C("B", "A", "eo", "ti", weak=True),
           C("A", "P", "eo", "ti"), C("P", "Q", "eo", "ti"), C("Q", "P", "eo", "ti", weak=True),
           C("A", "R", "eo", "ti")])
# ---- asynchronous requests ----------------------------------------------------------
S["async_1_2_3"] = dict(
    until=4,
    sims=[T("A"),
          T("M1", 1, **{"async": {"0": [("set", "A.e", "mi")], "2": [("set", "A.e", "mi")]}}),
          T("M2", 2, **{"async": {"0": [("set", "A.e", "mi")], "1": [("set", "A.e", "mi")]}}),
          T("M3", 3, **{"async": {"1": [("set", "A.e", "mi")]}})],
    conns=[dict(src="A", dst="M1", sattr="po", dattr="mi", **{"async": True}),
           dict(src="A", dst="M2", sattr="po", dattr="mi", **{"async": True}),
           dict(src="A", dst="M3", sattr="po", dattr="mi", **{"async": True})])
# a triggering connection that is also declared with async_requests
S["async_trigger"] = dict(until=5, sims=[T("A", 2), H("M"), T("X")],
                          conns=[dict(C("A", "M", "po", "ti"), **{"async": True})])
# a producer with an async-request agent AND an ordinary consumer
S["async_plus_consumer"] = dict(
    until=4, sims=[T("P"), T("Ag", 1, **{"async": {"1": [("set", "P.e", "mi")]}}), T("Cc")],
    conns=[dict(C("P", "Ag", "po", "mi"), **{"async": True}), C("P", "Cc", "po", "mi")])
S["async_two_writers"] = dict(
    until=3,
    sims=[T("A"),
          T("M1", 1, **{"async": {"0": [("gate", 0), ("set", "A.e", "mi")], "1": [("set", "A.e", "mi")]}}),
          T("M2", 1, **{"async": {"0": [("set", "A.e", "mi")], "2": [("set", "A.e", "mi")]}})],
    conns=[dict(src="A", dst="M1", sattr="po", dattr="mi", **{"async": True}),
           dict(src="A", dst="M2", sattr="po", dattr="mi", **{"async": True})])
S["async_in_group"] = dict(
    until=3, groups=G1,
    sims=[T("A", group="g"),
          T("M1", 1, group="g", **{"async": {"0": [("set", "A.e", "mi")], "1": [("set", "A.e", "mi")]}})],
    conns=[dict(src="A", dst="M1", sattr="po", dattr="mi", **{"async": True})])

# two routes between one pair whose accumulated delays tie in their numbers but leave different
# groups (direct inside the inner group, detour through the enclosing group); and a weak direct
# connection next to a delay-free two-hop path inside one group
S["nested_detour"] = dict(
    until=3, groups={"g": None, "h": "g"}, max_loop=4,
    sims=[E("Cc", group="g", emit_default=0), T("D", 2, group="h"), E("A", group="h", emit_default=0),
          E("B", group="h")],
    conns=[C("D", "A", "po", "ti", weak=True), C("D", "B", "po", "ti2", weak=True),
           C("A", "B", "eo", "ti"), C("A", "Cc", "eo", "ti"), C("Cc", "B", "eo", "ti2")])
S["weak_direct_plus_plain_path"] = dict(
    until=3, groups=G1, max_loop=4,
    sims=[T("D", 2, group="g"), E("A", group="g", emit_default=0), E("X", group="g", emit_default=0),
          E("B", group="g")],
    conns=[C("D", "A", "po", "ti"), C("D", "B", "po", "ti2", weak=True),
           C("A", "B", "eo", "ti", weak=True), C("A", "X", "eo", "ti"), C("X", "B", "eo", "ti2")])

# an ACYCLIC scenario with two routes between members of one group, one of them through a
# simulator outside the group (F7: the minimum-delay closure trips over incomparable delays)
S["incomparable_reentry"] = dict(
    until=2, groups=G1, max_loop=5,
    sims=[E("A", group="g", init_event=0, emit_default=0), E("B", group="g", emit_default=0),
          E("Cc", group="g", emit_default=0), E("D", group="g"), E("X", emit_default=0)],
    conns=[C("A", "D", "eo", "ti", weak=True), C("A", "X", "eo", "ti"), C("X", "B", "eo", "ti"),
           C("B", "Cc", "eo", "ti", weak=True), C("Cc", "D", "eo", "ti2", weak=True)])

# one connection that is time-shifted AND weak next to a relayed route with the same two delays one
# after the other (time-shifted, then weak): both arrive at the same sub-step, i.e. ONE step of A
S["shift_weak_direct_and_relayed"] = dict(
    until=4, groups=G1, max_loop=4,
    sims=[E("B", group="g", init_event=0, emit_default=0, next=[1, 1]), E("R", group="g", emit_default=0),
          E("A", group="g")],
    conns=[C("B", "A", "eo", "ti", shift=1, weak=True), C("B", "R", "eo", "ti", shift=1),
           C("R", "A", "eo", "ti2", weak=True)])

# set_initial_event called twice for one simulator ("an initial step": the last call counts)
S["two_initial_events_desc"] = dict(
    until=5, sims=[E("A", init_event=[3, 1], next=[None], emit_default=0), E("B")],
    conns=[C("A", "B", "eo", "ti")])
S["two_initial_events_asc"] = dict(
    until=5, sims=[E("A", init_event=[1, 3], next=[None], emit_default=0), E("B"), T("X")],
    conns=[C("A", "B", "eo", "ti")])

# the async_requests flag declared by a SECOND connect() call, after a time-shifted data connection
# between the same pair: the agent may read old data, but it must not step at t before A's step t
# has finished (the async connection has no delay)
for _sh in (1, 2):
    S[f"async_after_shift{_sh}"] = dict(
        until=4, sims=[T("A"), T("M", 1, **{"async": {"1": [("set", "A.e", "mi"), ("gate", 0)]}})],
        conns=[dict(src="A", dst="M", sattr="po", dattr="mi", shift=_sh, init=True),
               dict(src="A", dst="M", **{"async": True})])

# an idle event-based simulator in the middle of two async_requests connections: it never steps,
# so bookkeeping that refers to "its last step" refers to a step that does not exist
S["async_idle_middle"] = dict(
    until=3, sims=[T("X"), E("Sl"), T("Y")],
    conns=[dict(src="X", dst="Sl", **{"async": True}), dict(src="Sl", dst="Y", **{"async": True})])
S["async_idle_middle_data"] = dict(
    until=3, sims=[T("X"), E("Sl"), T("Y")],
    conns=[dict(src="X", dst="Sl", sattr="po", dattr="ti2", **{"async": True}),
           dict(src="Sl", dst="Y", **{"async": True})])

# ---- longer trigger chains ending in a self-stepping consumer, started against the data flow,
# with a time-shifted hop that is not the first one (transitive-ancestor bookkeeping) -----------
_CH = [E("X", init_event=0, emit_default=0, next=[1, 1]), E("M", emit_default=0), E("N", emit_default=0),
       H("W", next_default=1)]
S["E_chain4_W"] = dict(until=3, sims=_CH, conns=[C("X", "M", "eo", "ti"), C("M", "N", "eo", "ti"),
                                                 C("N", "W", "eo", "ti")])
S["E_chain4_W_rev"] = dict(S["E_chain4_W"], order=["W", "N", "M", "X"])
S["E_chain4_W_mixed"] = dict(S["E_chain4_W"], order=["X", "N", "M", "W"])
S["E_chain_shift_last_W"] = dict(until=3, sims=_CH,
                                 conns=[C("X", "M", "eo", "ti"), C("M", "N", "eo", "ti", shift=1),
                                        C("N", "W", "eo", "ti")])
S["E_chain_shift_last_W_rev"] = dict(S["E_chain_shift_last_W"], order=["W", "N", "M", "X"])
# five simulators: the last but one is three trigger hops away from the source, and has a consumer
_CH5 = [E("X", init_event=0, emit_default=0, next=[1]), E("M", emit_default=0), E("N", emit_default=0),
        E("W", emit_default=0), H("Y", next_default=1)]
S["E_chain5_Y_rev"] = dict(until=2, max_budget=0, sims=_CH5, order=["Y", "W", "N", "M", "X"],
                           conns=[C("X", "M", "eo", "ti"), C("M", "N", "eo", "ti"),
                                  C("N", "W", "eo", "ti"), C("W", "Y", "eo", "ti")])
S["insert_earlier_Y"] = dict(S["insert_earlier"], max_budget=0,
                             sims=[dict(s, emit_default=0) if s["sid"] == "D" else s
                                   for s in S["insert_earlier"]["sims"]] + [H("Y", next_default=1)],
                             conns=S["insert_earlier"]["conns"] + [C("D", "Y", "eo", "ti")])
# many steps queued out of order for one simulator (two producers, one running ahead), with a
# consumer behind it
S["queue_out_of_order"] = dict(until=6, max_budget=0,
                               sims=[E("P1", init_event=0, emit_default=0, next=[1, 1, 2]),
                                     E("P2", init_event=0, emit=[None, 0, 0], next=[3, 2]),
                                     E("B", emit_default=0), H("Cc", next_default=1)],
                               conns=[C("P1", "B", "eo", "ti"), C("P2", "B", "eo", "ti2"),
                                      C("B", "Cc", "eo", "ti")])
# ---- "+X" variants: an unconnected simulator whose steps finish at arbitrary moments and make
# mosaik recompute everybody's progress while others are between step() and get_data() ----------
S["anc_getdata_inflight"] = dict(until=2, sims=[T("A"), E("B", emit_default=0), E("Cc"), T("X")],
                                 conns=[C("A", "B", "po", "ti"), C("B", "Cc", "eo", "ti")])
S["anc_getdata_inflight_T"] = dict(until=3, sims=[T("A"), H("B"), T("D"), T("X")],
                                   conns=[C("A", "B", "po", "ti"), C("B", "D", "po", "mi")])
for _n in ("T_to_H_trigger", "E_chain3_self", "future_out", "weak_loop", "shift_cycle",
           "hyb_mixed_inputs", "weak_loop_out"):
    _b = S[_n]
    S[_n + "_X"] = dict(_b, until=min(_b["until"], 2 if len(_b["sims"]) > 2 else 3),
                        sims=list(_b["sims"]) + [T("X")])

# ---- generated family -----------------------------------------------------------------
GROUP_TEMPLATES = {
    2: [(None, None), ("g", "g"), ("g", None), (None, "g"), ("h", "g"), ("g", "h"), ("h", "h"),
        ("g", "g2")],
    3: [(None, None, None), ("g", "g", "g"), ("g", "g", None), ("g", None, "g"), (None, "g", "g"),
        ("h", "h", "g"), ("g", "g", "g2"), ("h", "g", None)],
}
GROUPS = {"g": None, "g2": None, "h": "g"}
SRC_ATTRS = {"T": ["po"], "E": ["eo"], "H": ["po", "eo"]}
DST_ATTRS = {"T": ["mi"], "E": ["ti"], "H": ["mi", "ti"]}
TYPES = {"T": "time-based", "E": "event-based", "H": "hybrid"}
BEH = {
    "T": [dict(step=1), dict(step=2)],
    "E": [dict(emit_default=0), dict(emit=[0]), dict(emit=[1], next=[1]),
          dict(emit_default=0, next=[2])],
    "H": [dict(emit_default=0, next_default=1), dict(emit=[0, 0]), dict(emit=[0], next=[2])],
}


def _gpath(g):
    p = []
    while True:
        p.append(g)
        if g is None:
            break
        g = GROUPS[g]
    return p[::-1]


def _cdepth(a, b):
    n = 0
    for x, y in zip(_gpath(a), _gpath(b)):
        if x != y:
            break
        n += 1
    return n


def topologies(n, maxconn, shifts=(1,)):
    """All (types, groups, conns) with n sims and 1..maxconn connections between
    distinct simulators (one connection per ordered pair), admissible attribute
    pairings (A3) and kind in {plain, shift k, weak where a group is shared}."""
    sids = ["A", "B", "C"][:n]
    pairs = [(a, b) for a in sids for b in sids if a != b]
    for types in itertools.product("TEH", repeat=n):
        typ = dict(zip(sids, types))
        for gt in GROUP_TEMPLATES[n]:
            grp = dict(zip(sids, gt))
            for k in range(1, maxconn + 1):
                for ps in itertools.combinations(pairs, k):
                    opts = []
                    for (a, b) in ps:
                        o = []
                        for sa in SRC_ATTRS[typ[a]]:
                            for da in DST_ATTRS[typ[b]]:
                                if (sa, da) == ("eo", "mi"):
                                    continue
                                kinds = ["plain"] + [("shift", s) for s in shifts]
                                if _cdepth(grp[a], grp[b]) >= 2:
                                    kinds.append("weak")
                                for kind in kinds:
                                    c = dict(src=a, dst=b, sattr=sa, dattr=da)
                                    if isinstance(kind, tuple):
                                        c["shift"] = kind[1]
                                    if kind == "weak":
                                        c["weak"] = True
                                    if kind != "plain" and da == "mi":
                                        c["init"] = True
                                    o.append(c)
                        opts.append(o)
                    for conns in itertools.product(*opts):
                        yield types, gt, list(conns)


def generated(n, maxconn, seed=0, limit=None, offset=0, until=3, max_loop=3, shifts=(1,)):
    """Deterministic sub-family: the topology list is shuffled with a fixed key
    (independent of `seed`); `seed` rotates the window and picks behaviours."""
    from .refmodel import Topo
    topo = list(topologies(n, maxconn, shifts))
    random.Random(12345).shuffle(topo)
    total = len(topo)
    if limit is not None:
        start = (offset + seed * limit) % max(total, 1)
        topo = (topo + topo)[start:start + limit]
    rnd = random.Random(seed * 7919 + n * 31 + maxconn)
    sids = ["A", "B", "C"][:n]
    res = []
    for types, gt, conns in topo:
        sims = []
        for sid, t, g in zip(sids, types, gt):
            b = rnd.choice(BEH[t])
            s = dict(sid=sid, type=TYPES[t], group=g, **b)
            has_trig_in = any(c["dst"] == sid and c["dattr"] == "ti" for c in conns)
            if t == "E" and (not has_trig_in or rnd.random() < 0.3):
                s["init_event"] = 0
            # A5: a hybrid whose persistent output is connected uses output offset 0
            if t == "H" and any(c["src"] == sid and c["sattr"] == "po" for c in conns):
                for key in ("emit",):
                    if key in s:
                        s[key] = [0 if v is not None else None for v in s[key]]
            sims.append(s)
        scen = dict(until=until, max_loop=max_loop, groups=GROUPS, sims=sims, conns=conns)
        if Topo(scen).unresolved_cycle() is not None:
            continue
        res.append(scen)
    return res, total
