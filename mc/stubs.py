"""Table-driven stub simulators.

A stub's behaviour is a deterministic function of its own step counter ``k``
(and, for the asynchronous-request agents, of the replies it gets).  ``step``
and ``get_data`` are *generator functions*: mosaik's ``LocalProxy`` (and
``mosaik_api_v3`` on the remote side) awaits whatever they yield, so yielding a
gate of the virtual loop makes the simulator really "in flight" while other
simulators run.

Every observable action is appended to the current run's trace *at the API
boundary* (before the gate for "begun", after it for "returned").
"""
from __future__ import annotations

import json

import mosaik_api_v3

from . import vshape

CTX = None  # the current harness.Run (set by Run.execute)

T_ATTRS = {"attrs": ["mi", "po"]}
E_ATTRS = {"attrs": ["ti", "ti2", "eo"]}
H_ATTRS = {
    "attrs": ["mi", "ti", "ti2", "po", "eo"],
    "trigger": ["ti", "ti2"],
    "non-persistent": ["eo"],
}


SPLIT = {      # the same models described by their role lists only (no `attrs`): inputs != outputs
    "time-based": {"non-trigger": ["mi"], "persistent": ["po"]},
    "event-based": {"trigger": ["ti", "ti2"], "non-persistent": ["eo"]},
    "hybrid": {"trigger": ["ti", "ti2"], "non-trigger": ["mi"], "persistent": ["po"],
               "non-persistent": ["eo"]},
}


def model_desc(sim_type, any_inputs=False, split=False):
    if split:
        m = {k: list(v) for k, v in SPLIT[sim_type].items()}
    elif sim_type == "time-based":
        m = dict(T_ATTRS)
    elif sim_type == "event-based":
        m = dict(E_ATTRS)
    else:
        m = dict(H_ATTRS)
    m.update(public=True, params=[])
    if any_inputs:
        m["any_inputs"] = True
    return m


def _idx(lst, k, default):
    if lst is not None and k < len(lst):
        return lst[k]
    return default


class StubSim(mosaik_api_v3.Simulator):
    def __init__(self):
        super().__init__({"models": {}})
        self.k = 0
        self.cur = None
        self.time = None
        self.finalized = 0
        self.req = 0            # number of requests received (fault addressing)
        self.ctx = CTX

    # -- API ----------------------------------------------------------------
    def init(self, sid, time_resolution=1.0, spec=None):
        self.sid = sid
        self.spec = spec
        self.ctx = CTX
        self.meta["type"] = spec["type"]
        self.meta["models"] = {"M": model_desc(spec["type"], spec.get("any_inputs", False),
                                               spec.get("split", False))}
        if spec.get("child"):
            # a child entity of ANOTHER model with the same attribute names but swapped roles
            # (hybrid only): in K, `mi` triggers and `ti`/`ti2` do not; `eo` persistent, `po` not
            self.meta["models"]["K"] = dict(
                attrs=["mi", "ti", "ti2", "po", "eo"], trigger=["mi"], **{"non-persistent": ["po"]},
                public=False, params=[])
        if spec.get("set_events"):
            self.meta["set_events"] = True
        if spec.get("extra_methods"):
            # extra methods: recorded when they reach the simulator, answer "<name>-ret"
            self.meta["extra_methods"] = list(spec["extra_methods"])
            for name in spec["extra_methods"]:
                setattr(self, name, self._make_extra(name))
        self.ctx.stubs[sid] = self
        return self.meta

    def _make_extra(self, name):
        def extra(*args, **kw):
            self.ctx.ev("XM", self.sid, name, json.dumps([list(args), kw], sort_keys=True))
            return f"{name}-ret"
        extra.__name__ = name
        return extra

    def create(self, num, model, **kw):
        first = {"eid": "e", "type": model}
        if self.spec.get("child"):
            first["children"] = [{"eid": "k", "type": "K"}]
        # a second entity `f` of the same model (spec ents=2; created by one create(2) call)
        return [first, {"eid": "f", "type": model}][:num]

    def setup_done(self):
        self.ctx.ev("U", self.sid)
        if getattr(self.ctx, "on_setup_done", None):
            self.ctx.on_setup_done(self)
        yield from self._fault_point("setup_done", 0)
        if "setup_done" in self.ctx.gate_kinds and self.ctx.gated:
            yield self.ctx.loop.gate((self.sid, "setup_done", 0))

    def step(self, time, inputs, max_advance):
        k = self.k
        self.k += 1
        self.time = time
        self.cur = k
        self.ctx.ev("B", self.sid, k, time, json.dumps(self._dec_inputs(inputs), sort_keys=True),
                    max_advance)
        if self.finalized:
            self.ctx.ev("X", self.sid, "request-after-finalize", "step", k)
        if self.ctx.cfg.get("mutate_inputs"):
            # a simulator that consumes its inputs destructively (pops what it has processed):
            # the dictionaries it was handed are its own to change
            for av in list(inputs.values()):
                for kv in list(av.values()):
                    kv.clear()
                av.clear()
            inputs.clear()
        yield from self._fault_point("step", k)
        if "step" in self.ctx.gate_kinds and self.ctx.gated and self.sid not in self.ctx.sync:
            yield self.ctx.loop.gate((self.sid, "step", k))
        sp = self.spec
        if str(k) in (sp.get("raise_in_step") or {}):
            exc = {"ValueError": ValueError, "KeyError": KeyError, "RuntimeError": RuntimeError}[
                sp["raise_in_step"][str(k)]]
            self.ctx.ev("X", self.sid, "raises", sp["raise_in_step"][str(k)], k)
            raise exc(f"error inside step {k} of {self.sid}")
        lat = self.ctx.latency(self, k) if getattr(self.ctx, "latency", None) else 0
        if lat < 0:
            # a synchronous simulator that computes for a while without yielding to the
            # event loop: the virtual clock moves on within this callback
            self.ctx.loop._vtime += -lat
        elif lat:
            import asyncio
            yield asyncio.sleep(lat)       # on the virtual clock
        # asynchronous requests towards mosaik (C16)
        for act in (sp.get("async") or {}).get(str(k), []):
            yield from self._async_action(act, k, time)
        if "next" in sp or sp["type"] != "time-based":
            d = _idx(sp.get("next"), k, sp.get("next_default"))
            nxt = None if d is None else time + d
        else:
            nxt = time + sp.get("step", 1)
        if sp.get("adaptive") and max_advance is not None:
            # an adaptive simulator: its next step is the first time mosaik does not vouch for
            # (compliant as long as mosaik never hands out a max_advance below the step's time)
            nxt = max_advance + 1
        bad = (sp.get("bad_next") or {}).get(str(k))
        if bad is not None:
            nxt = self._bad_value(bad, time, nxt)
        self.ctx.ev("S", self.sid, k, time, nxt if isinstance(nxt, (int, type(None))) else repr(nxt))
        return nxt

    def get_data(self, outputs):
        k = self.cur
        sp = self.spec
        self.ctx.ev("G", self.sid, k, self.time)
        if self.finalized:
            self.ctx.ev("X", self.sid, "request-after-finalize", "get_data", k)
        yield from self._fault_point("get_data", k)
        if "get_data" in self.ctx.gate_kinds and self.ctx.gated and self.sid not in self.ctx.sync:
            yield self.ctx.loop.gate((self.sid, "get_data", k))
        data = {}
        none_now = k in (sp.get("none_at") or ())
        d = None
        if sp["type"] != "time-based":
            d = _idx(sp.get("emit"), k, sp.get("emit_default"))
            if d is not None and (d != 0 or sp.get("explicit_time")):
                data["time"] = self.time + d
        elif sp.get("explicit_time"):
            data["time"] = self.time
        for eid in sorted(outputs):
            if eid == "k" and sp.get("child"):
                # the child entity of model K (roles swapped): `eo` is its persistent output
                # (token A3K), `po` its event output (A3Ke, when the step emits)
                want = outputs[eid]
                ent = {}
                if "eo" in want:
                    ent["eo"] = None if none_now else f"{self.sid}{k}K"
                if d is not None and "po" in want:
                    ent["po"] = None if none_now else f"{self.sid}{k}Ke"
                if ent:
                    data[eid] = ent
                continue
            if eid not in ("e", "f"):
                continue
            want = outputs[eid]
            mark = "" if eid == "e" else "F"       # tokens of the second entity: A3F / A3Fe
            ent = {}
            if sp["type"] != "event-based" and "po" in want and sp.get("po", True):
                ent["po"] = None if none_now else f"{self.sid}{k}{mark}"
            emits = d is not None
            if eid == "f" and "emit_f" in sp:
                # the second entity may have an emission schedule of its own (1 = emits at the
                # reply's output time, None = does not)
                emits = emits and _idx(sp["emit_f"], k, sp.get("emit_f_default")) is not None
            if eid == "e" and "emit_e" in sp:
                emits = emits and _idx(sp["emit_e"], k, sp.get("emit_e_default")) is not None
            if emits and "eo" in want:
                ent["eo"] = None if none_now else f"{self.sid}{k}{mark}e"
            if ent:
                data[eid] = ent
        bad = (sp.get("bad_time") or {}).get(str(k))
        if bad is not None:
            data["time"] = self._bad_value(bad, self.time, None)
        self.ctx.ev("D", self.sid, k, self.time, json.dumps(data, sort_keys=True))
        data = self._enc_data(data)
        if self.ctx.cfg.get("reuse"):
            # a simulator that keeps ONE reply dictionary (and one dictionary per entity) and
            # updates it in place before returning it -- `return self.data`, common in practice
            buf = self.__dict__.setdefault("_reply", {})
            for key in [x for x in buf if x not in data]:
                del buf[key]
            for key, v in data.items():
                if isinstance(v, dict):
                    if not isinstance(buf.get(key), dict):
                        buf[key] = {}
                    buf[key].clear()
                    buf[key].update(v)
                else:
                    buf[key] = v
            return buf
        return data

    def finalize(self):
        self.finalized += 1
        self.ctx.ev("F", self.sid)
        f = self.spec.get("fault")
        if f and f["req"] == "finalize" and self.finalized == 1:
            # the simulator fails while it is being stopped
            self.ctx.ev("X", self.sid, "fault", f["kind"], "finalize", 0)
            for _ in self.ctx.inject_fault(self, f):
                pass

    # -- helpers ------------------------------------------------------------
    def _shape(self):
        return getattr(self.ctx, "vshape", None)

    def _dec_inputs(self, inputs):
        sh = self._shape()
        if not sh:
            return inputs
        return vshape.dec_inputs(sh, inputs, self.ctx.sids)

    def _enc(self, token):
        sh = self._shape()
        return vshape.enc(sh, token, self.ctx.sids) if sh else token

    def _enc_data(self, data):
        if not self._shape():
            return data
        return {e: ({a: self._enc(v) for a, v in av.items()} if isinstance(av, dict) else av)
                for e, av in data.items()}

    def _bad_value(self, bad, time, nxt):
        kind = bad[0] if isinstance(bad, (list, tuple)) else bad
        if kind == "none":
            return None
        if kind == "same":
            return time
        if kind == "prev":
            return time - 1
        if kind == "neg":
            return -1
        if kind == "frac":
            return time + 1.5
        if kind == "bool":
            return True          # a bool is not a time (although Python counts it as an int)
        if kind == "npfrac":
            import numpy
            return numpy.float64(time + 1.5)     # a numpy scalar that is not a whole number
        if kind == "float":
            return float(time + 1)
        if kind == "str":
            return str(time + 1)
        if kind == "zero":
            return 0
        raise ValueError(kind)

    def _fault_point(self, kind, k):
        f = self.spec.get("fault")
        if f and f["req"] == kind and f["k"] == k:
            self.ctx.ev("X", self.sid, "fault", f["kind"], kind, k)
            yield from self.ctx.inject_fault(self, f)
        return
        yield  # pragma: no cover  (makes this a generator)

    def _async_action(self, act, k, time):
        op = act[0]
        if op == "gate":
            if self.ctx.gated:
                yield self.ctx.loop.gate((self.sid, "mid", k, act[1]))
        elif op == "set":
            _, dst_full, attr = act
            val = f"{self.sid}{k}s"
            self.ctx.ev("AS", self.sid, k, time, dst_full, attr, val)
            try:
                yield self.mosaik.set_data({f"{self.sid}.e": {dst_full: {attr: self._enc(val)}}})
                self.ctx.ev("AR", self.sid, k, "set", "ok")
            except Exception as e:  # noqa: BLE001
                self.ctx.ev("AR", self.sid, k, "set", type(e).__name__, _exc_name(e))
                if not act_tolerant(self.spec):
                    raise
        elif op == "set2":
            # ONE set_data call addressing several destinations (in this order)
            _, dsts, attr = act
            val = f"{self.sid}{k}s"
            self.ctx.ev("AS2", self.sid, k, time, json.dumps(list(dsts)), attr, val)
            try:
                yield self.mosaik.set_data({f"{self.sid}.e": {d: {attr: self._enc(val)} for d in dsts}})
                self.ctx.ev("AR", self.sid, k, "set", "ok")
            except Exception as e:  # noqa: BLE001
                self.ctx.ev("AR", self.sid, k, "set", type(e).__name__, _exc_name(e))
                if not act_tolerant(self.spec):
                    raise
        elif op == "get":
            _, src_full, attr = act
            self.ctx.ev("AG", self.sid, k, time, src_full, attr)
            f = self.spec.get("fault")
            if f and f["req"] == "async" and f["k"] == k:
                # the fault hits while this simulator's own request to mosaik is outstanding:
                # the request goes out, the reply is never awaited
                import asyncio
                t = asyncio.ensure_future(self.mosaik.get_data({src_full: [attr]}))
                yield asyncio.sleep(0)
                t.cancel()
                yield from self._fault_point("async", k)
            try:
                res = yield self.mosaik.get_data({src_full: [attr]})
                if self._shape():
                    res = {src: {a: vshape.dec(self._shape(), v, src.split(".")[0], self.ctx.sids)
                                 for a, v in av.items()} for src, av in res.items()}
                self.ctx.ev("AR", self.sid, k, "get", "ok", json.dumps(res, sort_keys=True))
            except Exception as e:  # noqa: BLE001
                self.ctx.ev("AR", self.sid, k, "get", type(e).__name__, _exc_name(e))
                if not act_tolerant(self.spec):
                    raise
        else:
            raise ValueError(op)


def act_tolerant(spec):
    return spec.get("async_tolerant", True)


def _exc_name(e):
    rt = getattr(e, "remote_type", None)
    return rt if rt is not None else type(e).__name__


class PlainStub(StubSim):
    """The same behaviour with PLAIN methods (no generator functions): what most in-process
    simulators look like.  Can only be used ungated (`sync`)."""

    def _drive(self, gen):
        try:
            y = next(gen)
        except StopIteration as stop:
            return stop.value
        raise RuntimeError(f"plain stub {self.sid} would have to yield {y!r}")

    def _plain_fault(self, kind, k):
        f = self.spec.get("fault")
        if f and f["req"] == kind and f["k"] == k and f["kind"] == "raise_stop":
            # a StopIteration out of a plain method (e.g. next() on an exhausted iterator)
            self.ctx.ev("X", self.sid, "fault", f["kind"], kind, k)
            self.ctx.fault_done = True
            raise StopIteration(f"injected StopIteration in {self.sid}")

    def setup_done(self):
        self._plain_fault("setup_done", 0)
        return self._drive(StubSim.setup_done(self))

    def step(self, time, inputs, max_advance):
        self._plain_fault("step", self.k)
        return self._drive(StubSim.step(self, time, inputs, max_advance))

    def get_data(self, outputs):
        self._plain_fault("get_data", self.cur)
        return self._drive(StubSim.get_data(self, outputs))


class DescSim(mosaik_api_v3.Simulator):
    """Returns exactly the model description / type / version it is told to (C12, C15)."""

    def __init__(self):
        super().__init__({"models": {}})

    def init(self, sid, time_resolution=1.0, desc=None, type=None, api_version=None, child=False):
        self.child = child
        if child:
            # the description under test belongs to a NON-PUBLIC model K that only occurs as the
            # type of a child entity of the (fixed, valid) public model M
            meta = {"models": {"M": dict(attrs=["pa"], public=True, params=[]),
                               "K": dict(desc, public=False, params=[])}}
        else:
            meta = {"models": {"M": dict(desc, public=True, params=[])}}
        if type is not None:
            meta["type"] = type
        meta["api_version"] = api_version or "3.0"
        self.meta = meta
        return meta

    def create(self, num, model, **kw):
        if getattr(self, "child", False):
            return [{"eid": "e", "type": model, "children": [{"eid": "k", "type": "K"}]}]
        return [{"eid": "e", "type": model}]

    def step(self, time, inputs, max_advance):
        return None

    def get_data(self, outputs):
        return {}


# ---- simulators with old-style signatures / announced versions (C15) -------------------------
_MISSING = object()


class _VerBase(StubSim):
    """StubSim behaviour; the subclasses below only vary the signatures."""

    def _init(self, sid, spec, got_tr, kwargs):
        self.ctx.ev("I", sid, bool(got_tr), sorted(kwargs))
        meta = StubSim.init(self, sid, 1.0, spec)
        v = spec.get("api_version", "3.0")
        if v is None:
            meta.pop("api_version", None)
        else:
            meta["api_version"] = v
        if spec.get("omit_type"):
            meta.pop("type", None)
        return meta

    def _step(self, time, inputs, extra):
        n = len(self.ctx.trace)
        ret = yield from StubSim.step(self, time, inputs, extra[0] if extra else None)
        self.ctx.ev("A", self.sid, self.cur, 2 + len(extra))     # arity of the step request
        return ret


def _mk(init_sig, step_sig):
    ns = {}
    if init_sig == "tr":
        def init(self, sid, time_resolution=_MISSING, spec=None):
            return self._init(sid, spec, time_resolution is not _MISSING, {})
    elif init_sig == "kw":
        def init(self, sid, spec=None, **kw):
            return self._init(sid, spec, "time_resolution" in kw, kw)
    else:
        def init(self, sid, spec=None):
            return self._init(sid, spec, False, {})
    if step_sig == "a3":
        def step(self, time, inputs, max_advance):
            return (yield from self._step(time, inputs, (max_advance,)))
    elif step_sig == "opt":
        def step(self, time, inputs, max_advance=_MISSING):
            return (yield from self._step(time, inputs,
                                          () if max_advance is _MISSING else (max_advance,)))
    elif step_sig == "var":
        def step(self, time, inputs, *a):
            return (yield from self._step(time, inputs, a))
    else:
        def step(self, time, inputs):
            return (yield from self._step(time, inputs, ()))
    ns["init"] = init
    ns["step"] = step
    return type(f"Ver_{init_sig}_{step_sig}", (_VerBase,), ns)


VER_CLASSES = {}
for _i in ("tr", "kw", "none"):
    for _s in ("a3", "opt", "var", "a2"):
        _c = _mk(_i, _s)
        VER_CLASSES[(_i, _s)] = _c
        globals()[_c.__name__] = _c


# two different simulator classes that happen to have the same __name__ (as two packages that both
# call their class "Simulator" do): one current-API, one old-API
SameNameNew = type("SameName", (VER_CLASSES[("tr", "a3")],), {})
SameNameOld = type("SameName", (VER_CLASSES[("none", "a2")],), {})
