"""Driver for the properties decided by scheduler exploration
(C01 C02 C03 C04 C05 C07 C09 C10 C16).

A *job* is (scenario, configuration, deviation budget, execution cap).  Jobs
are independent; they run in a pool of long-lived worker processes and their
summaries are cached under /verif/.work/cache/<digest of every source file of
the tree under test and of /verif/mc>/ so that the properties sharing one
exploration pay for it once per tree.
"""
from __future__ import annotations

import collections
import hashlib
import itertools
import json
import multiprocessing as mp
import os
import sys
import time

from . import env, evidence, findings, scenarios

SCHED_PROPS = ("C01", "C02", "C03", "C04", "C05", "C07", "C09", "C10", "C16")
NPROC = int(os.environ.get("VERIF_PROCS", "16"))

ASSUMPTIONS = [
    "A1 simulators are API-compliant (next step > current step, output time >= step time)",
    "A2 a persistent attribute is reported in every get_data reply",
    "A3 connection pairings persistent->non-trigger, event->trigger, persistent->trigger only",
    "A4 set_initial_event at most once per simulator (event-based any time, hybrid at 0)",
    "A5 replies with a later output time carry only non-persistent attributes",
    "replies are delivered at loop-iteration boundaries: all orders at quiescence, "
    "at most d early deliveries inside mosaik's own wake-up cascades",
    "state merging at quiescent points, validated on every merge "
    "(same canonical state => same observable default continuation)",
]


def _job_key(job):
    return hashlib.sha1(json.dumps(job, sort_keys=True, default=str).encode()).hexdigest()


def _work(job):
    from . import explorer
    try:
        r = explorer.explore(job["scen"], job["cfg"], budget=job["budget"],
                             max_exec=job["max_exec"], stateless=job.get("stateless", False))
        r["error"] = None
    except explorer.UnsoundMerge as e:
        # the canonical state does not determine the future on this tree (e.g. a change gave
        # meaning to something the abstraction drops): explore this job without any merging
        try:
            r = explorer.explore(job["scen"], job["cfg"], budget=job["budget"],
                                 max_exec=job["max_exec"], stateless=True)
            r["error"] = None
            r["stateless_fallback"] = str(e)[:200]
        except Exception as e2:  # noqa: BLE001
            r = dict(error="UNSOUND-MERGE " + str(e)[:200] + " / fallback failed: " + repr(e2)[:200])
    except explorer.Divergence as e:
        r = dict(error="DIVERGENCE " + str(e)[:300])
    except Exception as e:  # noqa: BLE001
        import traceback
        r = dict(error="HARNESS-ERROR " + repr(e)[:200] + traceback.format_exc()[-600:])
    r["name"] = job["name"]
    r["cfg"] = job["cfg"]
    r["key"] = _job_key(job)
    return r


def run_jobs(jobs, use_cache=True, progress=False):
    digest = env.source_digest()
    cdir = os.path.join(env.WORK, "cache", digest[:24])
    os.makedirs(cdir, exist_ok=True)
    results = {}
    todo = []
    for job in jobs:
        k = _job_key(job)
        p = os.path.join(cdir, k + ".json")
        if use_cache and os.path.exists(p):
            try:
                with open(p) as f:
                    results[k] = json.load(f)
                    results[k]["cached"] = True
                continue
            except Exception:  # noqa: BLE001
                pass
        todo.append(job)
    if todo:
        # longest first
        todo.sort(key=lambda j: -(j["budget"] * 10 + len(j["scen"]["sims"])))
        ctx = mp.get_context("fork")
        with ctx.Pool(min(NPROC, len(todo))) as pool:
            for i, r in enumerate(pool.imap_unordered(_work, todo, chunksize=1)):
                r["cached"] = False
                results[r["key"]] = r
                tmp = os.path.join(cdir, r["key"] + f".{os.getpid()}.tmp")
                with open(tmp, "w") as f:
                    json.dump(r, f, default=str)
                os.replace(tmp, os.path.join(cdir, r["key"] + ".json"))
                if progress and (i + 1) % 50 == 0:
                    print(f"  .. {i + 1}/{len(todo)} jobs", file=sys.stderr, flush=True)
    _prune_cache(os.path.join(env.WORK, "cache"), keep=os.path.basename(cdir))
    return [results[_job_key(j)] for j in jobs]


def _prune_cache(root, keep, max_dirs=6):
    try:
        ds = sorted((d for d in os.listdir(root) if d != keep),
                    key=lambda d: os.path.getmtime(os.path.join(root, d)))
        import shutil
        for d in ds[:-max_dirs] if len(ds) > max_dirs else []:
            shutil.rmtree(os.path.join(root, d), ignore_errors=True)
    except Exception:  # noqa: BLE001
        pass


# ---------------------------------------------------------------------------------------
def base_configs():
    return [dict(lazy=l, cache=c) for l in (True, False) for c in (True, False)]


N_FAMILY_SEEDS = 3      # the generated family has this many (validated) windows


def gen_families(seed):
    """the thorough tier's generated scenarios for this seed (window = seed mod N_FAMILY_SEEDS)"""
    fs = seed % N_FAMILY_SEEDS
    n2 = int(os.environ.get("VERIF_GEN2", "1500"))
    n3 = int(os.environ.get("VERIF_GEN3", "1200"))
    fam2, tot2 = scenarios.generated(2, 2, seed=fs, limit=n2, shifts=(1, 2))
    fam3, tot3 = scenarios.generated(3, 3, seed=fs, limit=n3)
    return fs, fam2, tot2, fam3, tot3


def sync_jobs(items, thorough, max_exec=4000):
    """Some simulators answer synchronously (their step/get_data never yield to the loop, like
    the in-process simulators of the test-suite) while the others are gated: a synchronous
    simulator runs through its steps before later processes have even started, which no
    gated schedule does.  quick: all synchronous, exactly one synchronous, exactly one gated;
    thorough: every subset."""
    jobs = []
    for name, scen in items:
        sids = [s["sid"] for s in scen["sims"]]
        if thorough:
            variants = [list(c) for r in range(1, len(sids)) for c in itertools.combinations(sids, r)]
            variants.append("all")
            cfgs = base_configs()
        else:
            variants = ["all"] + [[s] for s in sids]
            if len(sids) > 2:
                variants += [[t for t in sids if t != s] for s in sids]
            cfgs = [dict(lazy=l, cache=True) for l in (True, False)]
        # with synchronous simulators the ORDER of the world.start() calls decides who runs
        # through its steps before whose process has started: all orders (at most 24) when every
        # simulator is synchronous (one execution each -- this is how the repository's test-suite
        # runs its scenarios), the reverse order for the mixed variants
        orders = []
        if not scen.get("order"):
            orders = [list(o) for o in itertools.permutations(sids)][1:]
            if len(orders) > 23:
                orders = orders[::len(orders) // 23][:23]
        for cfg in cfgs:
            for v in variants:
                jobs.append(dict(name=name, scen=scen, cfg=dict(cfg, sync=v), budget=0,
                                 max_exec=max_exec))
                if thorough and v != "all":
                    jobs.append(dict(name=name, scen=scen, cfg=dict(cfg, sync=v), budget=1,
                                     max_exec=max_exec))
                if v == "all":
                    for o in orders:
                        jobs.append(dict(name=name, scen=scen, cfg=dict(cfg, sync=v, order=o),
                                         budget=0, max_exec=200))
                elif orders and (thorough or len(v) == 1):
                    for o in ([sids[::-1]] if not thorough else orders[:: max(1, len(orders) // 5)]):
                        jobs.append(dict(name=name, scen=scen, cfg=dict(cfg, sync=v, order=list(o)),
                                         budget=0, max_exec=max_exec))
    return jobs


def _digit_free(scen):
    return not any(ch.isdigit() for s in scen["sims"] for ch in s["sid"])


def vshape_jobs(items, thorough, max_exec=6000):
    """Value shapes on the wire (mc/vshape.py): numbers including the falsy values 0, "", False,
    [] and {}, and dictionaries with step-dependent key sets, instead of string tokens.  The
    monitors see the decoded tokens, so every oracle (and C04's comparison of views across
    configurations) applies unchanged."""
    jobs = []
    for name, scen in items:
        if not _digit_free(scen):
            continue        # a token like M12 would be ambiguous
        for shape in ("num", "dict"):
            for cache in (True, False):
                for lazy in ((True, False) if thorough else (True,)):
                    cfg = dict(lazy=lazy, cache=cache, vshape=shape)
                    jobs.append(dict(name=name, scen=scen, cfg=cfg, budget=0, max_exec=max_exec))
                    if thorough and scen.get("max_budget", 1) >= 1:
                        jobs.append(dict(name=name, scen=scen, cfg=cfg, budget=1, max_exec=20000))
                jobs.append(dict(name=name, scen=scen, cfg=dict(lazy=True, cache=cache, vshape=shape,
                                                                sync="all"), budget=0, max_exec=10))
    return jobs


def reuse_jobs(items, thorough, max_exec=6000):
    """In-process simulators that keep ONE reply dictionary and update it in place (`return
    self.data`): what mosaik stored or handed on for an earlier time must not change with it."""
    jobs = []
    for name, scen in items:
        for lazy in (True, False):
            for cache in ((True, False) if thorough else (True,)):
                cfg = dict(lazy=lazy, cache=cache, reuse=True)
                jobs.append(dict(name=name, scen=scen, cfg=cfg, budget=0, max_exec=max_exec))
                if thorough and scen.get("max_budget", 1) >= 1:
                    jobs.append(dict(name=name, scen=scen, cfg=cfg, budget=1, max_exec=20000))
        jobs.append(dict(name=name, scen=scen, cfg=dict(lazy=True, cache=True, reuse=True, sync="all"),
                         budget=0, max_exec=10))
        # ... and simulators that consume their `inputs` destructively (clear the dictionaries
        # they were handed): mosaik's own memory of persistent inputs must not live in them
        for cfg in (dict(lazy=True, cache=False, mutate_inputs=True),
                    dict(lazy=True, cache=False, mutate_inputs=True, sync="all")) + \
                ((dict(lazy=False, cache=True, mutate_inputs=True),) if thorough else ()):
            jobs.append(dict(name=name, scen=scen, cfg=cfg, budget=0, max_exec=max_exec))
    return jobs


def badpair_jobs(items, thorough, max_exec=6000):
    """Every connect() call of the scenario names one more attribute pair that mosaik rejects,
    and the script handles the ScenarioError: the valid pairs of the call must behave exactly as
    if they had been given alone."""
    jobs = []
    for name, scen in items:
        if not any(c.get("sattr") for c in scen["conns"]):
            continue
        cfgs = [dict(lazy=True, cache=True, badpair=True),
                dict(lazy=True, cache=False, badpair=True, sync="all")]
        if thorough:
            cfgs += [dict(lazy=False, cache=True, badpair=True), dict(lazy=True, cache=True, badpair=True, sync="all")]
        for cfg in cfgs:
            jobs.append(dict(name=name, scen=scen, cfg=cfg, budget=0, max_exec=max_exec))
    return jobs


def quick_jobs(seed=0):
    jobs = []
    for name, scen in scenarios.CATALOGUE.items():
        for cfg in base_configs():
            for b in (0, 1):
                if b > scen.get("max_budget", 1):
                    continue
                jobs.append(dict(name=name, scen=scen, cfg=cfg, budget=b,
                                 max_exec=6000))
    jobs += sync_jobs(scenarios.CATALOGUE.items(), thorough=False)
    jobs += vshape_jobs(scenarios.CATALOGUE.items(), thorough=False)
    jobs += reuse_jobs(scenarios.CATALOGUE.items(), thorough=False)
    jobs += badpair_jobs(scenarios.CATALOGUE.items(), thorough=False)
    # a slice of the generated family (the first scenarios of the thorough tier's window)
    fs, fam2, _, fam3, _ = gen_families(seed)
    q2 = fam2[:int(os.environ.get("VERIF_QGEN2", "160"))]
    for i, scen in enumerate(q2):
        for cfg in base_configs():
            jobs.append(dict(name=f"gen2-{fs}-{i}", scen=scen, cfg=cfg, budget=0, max_exec=4000))
    jobs += sync_jobs([(f"gen2-{fs}-{i}", sc) for i, sc in enumerate(q2)], thorough=False,
                      max_exec=2000)
    for i, scen in enumerate(fam3[:int(os.environ.get("VERIF_QGEN3", "80"))]):
        for cfg in base_configs():
            jobs.append(dict(name=f"gen3-{fs}-{i}", scen=scen, cfg=cfg, budget=0, max_exec=3000))
    return jobs


def c04_extra_jobs(seed=0, tier="quick"):
    """debug / start order / transport variations (quick: on a third of the catalogue)."""
    jobs = []
    names = list(scenarios.CATALOGUE)
    def special(n):
        sc = scenarios.CATALOGUE[n]
        return bool(sc.get("groups")) or any(c.get("async") for c in sc["conns"])
    sel = [n for i, n in enumerate(names) if tier == "thorough" or i % 3 == seed % 3 or special(n)]
    for name in sel:
        scen = scenarios.CATALOGUE[name]
        sids = [s["sid"] for s in scen["sims"]]
        orders = list(itertools.permutations(sids))
        if len(orders) > 6 and tier == "quick":
            orders = orders[:: max(1, len(orders) // 6)]
        for order in orders[1:]:
            jobs.append(dict(name=name, scen=scen, cfg=dict(lazy=True, cache=True, order=list(order)),
                             budget=0, max_exec=800))
        for lazy in (True, False):
            jobs.append(dict(name=name, scen=scen, cfg=dict(lazy=lazy, cache=True, debug=True),
                             budget=0, max_exec=800))
            jobs.append(dict(name=name, scen=scen, cfg=dict(lazy=lazy, cache=True, transport="mem"),
                             budget=0, max_exec=800))
    return jobs


def thorough_jobs(seed=0):
    jobs = []
    for name, scen in scenarios.CATALOGUE.items():
        for cfg in base_configs():
            for b in (0, 1, 2):
                jobs.append(dict(name=name, scen=scen, cfg=cfg, budget=b, max_exec=20000))
    jobs += sync_jobs(scenarios.CATALOGUE.items(), thorough=True)
    jobs += vshape_jobs(scenarios.CATALOGUE.items(), thorough=True)
    jobs += reuse_jobs(scenarios.CATALOGUE.items(), thorough=True)
    jobs += badpair_jobs(scenarios.CATALOGUE.items(), thorough=True)
    fs, fam2, tot2, fam3, tot3 = gen_families(seed)
    jobs += sync_jobs([(f"gen2-{fs}-{i}", sc) for i, sc in enumerate(fam2)], thorough=False,
                      max_exec=2000)
    for i, scen in enumerate(fam2):
        for cfg in base_configs():
            for b in (0, 1):
                jobs.append(dict(name=f"gen2-{fs}-{i}", scen=scen, cfg=cfg, budget=b, max_exec=4000))
    for i, scen in enumerate(fam3):
        for cfg in base_configs():
            jobs.append(dict(name=f"gen3-{fs}-{i}", scen=scen, cfg=cfg, budget=0, max_exec=3000))
    return jobs, dict(family_window=fs, gen2_total=tot2, gen2_taken=len(fam2), gen3_total=tot3,
                      gen3_taken=len(fam3))


# ---------------------------------------------------------------------------------------
def check(prop, tier):
    assert prop in SCHED_PROPS
    t0 = time.time()
    seed = env.seed()
    fam_info = {}
    if tier == "quick":
        jobs = quick_jobs(seed)
    else:
        jobs, fam_info = thorough_jobs(seed)
    if prop == "C04":
        jobs = jobs + c04_extra_jobs(seed, tier)
    if prop == "C16":
        jobs = [j for j in jobs if any(c.get("async") for c in j["scen"]["conns"])]
        from . import c16
        jobs = jobs + c16.jobs(tier, seed)
    results = run_jobs(jobs, progress=(tier == "thorough"))
    rep = findings.Reporter(prop)
    machinery = [r for r in results if r.get("error")]
    if machinery:
        for r in machinery[:5]:
            print(f"MACHINERY-ERROR {r['name']} {r['cfg']}: {r['error']}", file=sys.stderr)
        return 2
    tot = collections.Counter()
    capped = []
    outcomes = collections.Counter()
    samples = []
    byname = {j["name"]: j for j in jobs}
    for job, r in zip(jobs, results):
        tot["execs"] += r["execs"]
        tot["states"] += r["states"]
        tot["transitions"] += r["transitions"]
        tot["merges"] += r["merges"]
        tot["viol_execs"] += r["viol_execs"]
        tot[f"jobs_d{job['budget']}"] += 1
        if r["capped"]:
            capped.append(f"{job['name']}|{_cfgs(job['cfg'])}|d={job['budget']}")
        else:
            tot[f"complete_d{job['budget']}"] += 1
        if r["nviews"] > 1:
            tot["jobs_with_several_views"] += 1
        if r.get("stateless_fallback"):
            tot["stateless_fallbacks"] += 1
        for k, n in r["outcomes"].items():
            outcomes[k.split(":")[0] if k.startswith("exc") is False else ":".join(k.split(":")[:2])] += n
        for v in r["viols"]:
            if v["prop"] != prop:
                continue
            rep.report(v, dict(kind="schedule", scenario=job["scen"], cfg=job["cfg"], name=job["name"],
                               choices=v.get("choices"), names=v.get("names"),
                               trace=v.get("trace"), result=v.get("result")))
        if len(samples) < 3 and r.get("sample"):
            samples.append(dict(scenario=job["name"], cfg=job["cfg"], budget=job["budget"],
                                **r["sample"]))
    if prop == "C04":
        _check_c04(jobs, results, rep, tot)
    if prop == "C07":
        # promises in real-time mode, where ancestors can receive external events (set_event)
        from . import rt
        n_rt, err = rt.c07_check(rep, tier)
        if err:
            print(f"MACHINERY-ERROR {err}", file=sys.stderr)
            return 2
        tot["execs"] += n_rt
        tot["states"] += n_rt
        tot["transitions"] += n_rt
        tot["rt_event_executions"] = n_rt
    rc = rep.finish()
    nontrivial = sum(1 for r in results if r["execs"] > 1)
    cov = dict(
        states=max(1, tot["states"]), transitions=max(1, tot["transitions"]),
        traces_validated_against_impl=tot["execs"],
        evaluations=tot["execs"], distinct_nontrivial=nontrivial,
        rule="one evaluation = one complete execution of the real scheduler under a chosen "
             "reply-delivery schedule; a job (scenario x configuration x deviation bound) is "
             "non-trivial when it has more than one schedule",
        samples=samples, exhaustive=not capped,
        jobs=len(jobs), jobs_from_cache=sum(1 for r in results if r.get("cached")),
        scenarios=len(byname), merges_validated=tot["merges"],
        deviation_bounds={f"d={b}": dict(jobs=tot[f"jobs_d{b}"], complete=tot[f"complete_d{b}"])
                          for b in (0, 1, 2) if tot[f"jobs_d{b}"]},
        capped_jobs=capped[:40], n_capped=len(capped),
        outcomes=dict(outcomes), executions_with_any_violation=tot["viol_execs"],
        jobs_with_several_views=tot["jobs_with_several_views"],
        jobs_explored_without_merging_after_a_failed_merge_validation=tot["stateless_fallbacks"],
        known_findings_hit={k: v[1] for k, v in rep.known_hits.items()},
        real_time_executions_with_external_events=tot.get("rt_event_executions", 0),
        family=fam_info,
        explanation="no abstract model: every transition is an execution of the code in the "
                    "tree under test, so every trace is an implementation trace",
    )
    evidence.write(prop, tier, "model_checking", cov, ASSUMPTIONS, time.time() - t0,
                   len(rep.violations))
    print(f"{prop} {tier}: jobs={len(jobs)} execs={tot['execs']} states={tot['states']} "
          f"transitions={tot['transitions']} merges={tot['merges']} capped={len(capped)} "
          f"violations={len(rep.violations)} known={sum(v[1] for v in rep.known_hits.values())} "
          f"wall={time.time() - t0:.1f}s")
    return rc


def _cfgs(cfg):
    return ",".join(f"{k}={v}" for k, v in sorted(cfg.items()))


def _check_c04(jobs, results, rep, tot):
    """Differential oracle: per scenario, the per-simulator (time, inputs) sequences must be
    the same in every schedule and configuration."""
    by = collections.defaultdict(list)
    for job, r in zip(jobs, results):
        by[job["name"]].append((job, r))
    for name, lst in by.items():
        views = collections.OrderedDict()
        errviews = []
        for job, r in lst:
            for vj, ex in r["views"]:
                if ex["result"][0] == "ok":
                    views.setdefault(vj, (job, ex))
                else:
                    errviews.append((vj, job, ex))
        tot["c04_scenarios"] += 1
        tot["c04_views"] += len(views)
        # the run outcome is part of what is observed
        kinds = collections.OrderedDict()
        for job, r in lst:
            for k in r["outcomes"]:
                kk = ":".join(k.split(":")[:2])
                kinds.setdefault(kk, job)
        if len(kinds) > 1:
            (k0, j0), (k1, j1) = list(kinds.items())[:2]
            cls = None
            from .refmodel import Topo
            dl = [j for k_, j in ((k0, j0), (k1, j1)) if k_ == "deadlock"]
            if dl and all(j["cfg"].get("lazy", True) for j in dl) and Topo(j0["scen"]).group_reentry():
                cls = "lazy-wait-across-group-reentry"
            rep.report(
                dict(prop="C04", kind="outcome-differs", cls=cls,
                     msg=f"{name}: run() ends with {k0} under [{_cfgs(j0['cfg'])}] but with {k1} "
                         f"under [{_cfgs(j1['cfg'])}]"),
                dict(kind="schedule-pair", scenario=j0["scen"], name=name,
                     a=dict(cfg=j0["cfg"], choices=[]), b=dict(cfg=j1["cfg"], choices=[])))
        if len(views) > 1:
            items = list(views.items())
            # reference view: one whose executions had no data-flow deviation at all
            items.sort(key=lambda it: len(it[1][1].get("c03", [])))
            (v0, (j0, e0)) = items[0]
            for v1, (j1, e1) in items[1:]:
                d = _first_diff(json.loads(v0), json.loads(v1))
                # a view that deviates from a clean one only by inputs that the C03 monitor
                # classified (root cause of a recorded finding) inherits that classifier
                classes = [None]
                both = sorted(set(e0.get("c03") or []) | set(e1.get("c03") or []))
                if both and "None" not in both and e1.get("c03"):
                    # every data-flow deviation of the two executions is classified (when no
                    # execution of the scenario is free of deviations the least deviating view
                    # is the reference)
                    classes = list(e1["c03"]) if not e0.get("c03") else both
                for cls in classes:
                    rep.report(
                        dict(prop="C04", kind="view-differs", cls=cls, sim=d[0] if d else None,
                             msg=f"{name}: {d} between [{_cfgs(j0['cfg'])}] and [{_cfgs(j1['cfg'])}]"),
                        dict(kind="schedule-pair", scenario=j0["scen"], name=name,
                             a=dict(cfg=j0["cfg"], choices=e0["choices"]),
                             b=dict(cfg=j1["cfg"], choices=e1["choices"])))
        # runs that ended in an (expected) error: sequences must be prefix-compatible
        if views and errviews:
            full = json.loads(next(iter(views)))
            for vj, job, ex in errviews:
                part = json.loads(vj)
                for sid, seq in part.items():
                    ref = full.get(sid, [])
                    if seq != ref[:len(seq)]:
                        pass  # an error run is judged by C05/C09, not by C04


def _first_diff(a, b):
    for sid in sorted(set(a) | set(b)):
        sa, sb = a.get(sid, []), b.get(sid, [])
        for i in range(max(len(sa), len(sb))):
            xa = sa[i] if i < len(sa) else None
            xb = sb[i] if i < len(sb) else None
            if xa != xb:
                return (sid, i, xa, xb)
    return None


