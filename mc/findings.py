"""Violation reporting, replay artefacts and the known-findings file.

``known_findings.json`` (committed, never written at run time):
  known: [{id, property, match:{field: value,...}, what, witness}]   -- printed as
         ``KNOWN-FINDING: property=<id> <what>`` when a violation matches; exit code unaffected
  fixed: [{id, property, commit, what}]  -- documentation only, suppresses nothing
A violation matches a known entry iff the property is the same and every field
of ``match`` equals the violation's field (``kind``, ``cls`` = root-cause
classifier computed from the failing execution, ...).  Anything else is a
VIOLATION.
"""
from __future__ import annotations

import hashlib
import json
import os

from . import env

KNOWN_FILE = os.path.join(env.VERIF_DIR, "known_findings.json")
REPLAY_DIR = os.path.join(env.VERIF_DIR, "replays")


def load_known():
    try:
        with open(KNOWN_FILE) as f:
            return json.load(f)
    except FileNotFoundError:
        return {"known": [], "fixed": []}


def match_known(v, known=None):
    known = known if known is not None else load_known()
    for k in known.get("known", []):
        if k["property"] != v["prop"]:
            continue
        if all((_field(v, f) in val) if isinstance(val, list) else (_field(v, f) == val)
               for f, val in k.get("match", {}).items()):
            return k
    return None


def _field(v, f):
    x = v.get(f)
    return x


def write_replay(prop, payload):
    os.makedirs(REPLAY_DIR, exist_ok=True)
    blob = json.dumps(payload, sort_keys=True, default=str)
    h = hashlib.sha1(blob.encode()).hexdigest()[:12]
    path = os.path.join(REPLAY_DIR, f"{prop}-{h}.json")
    with open(path, "w") as f:
        f.write(blob)
    return path


class Reporter:
    """Collects violations of one property check and prints the verdict lines."""

    def __init__(self, prop):
        self.prop = prop
        self.known = load_known()
        self.violations = []      # (v, replay path)
        self.known_hits = {}      # known id -> (entry, count, example)
        try:
            for f in os.listdir(REPLAY_DIR):
                if f.startswith(prop + "-"):
                    os.unlink(os.path.join(REPLAY_DIR, f))
        except OSError:
            pass

    def report(self, v, payload):
        """v: violation dict (prop, kind, cls, msg, ...); payload: replay data."""
        assert v["prop"] == self.prop, (v["prop"], self.prop)
        k = match_known(v, self.known)
        if k is not None:
            if k["id"] not in self.known_hits:
                # one replayable witness per known finding and run
                os.makedirs(REPLAY_DIR, exist_ok=True)
                with open(os.path.join(REPLAY_DIR, f"{self.prop}-known-{k['id']}.json"), "w") as f:
                    json.dump(dict(payload, violation={kk: vv for kk, vv in v.items()
                                                       if kk not in ("trace",)}), f, default=str)
            e = self.known_hits.setdefault(k["id"], [k, 0, v])
            e[1] += v.get("count", 1)
            return "known"
        path = write_replay(self.prop, dict(payload, violation={
            kk: vv for kk, vv in v.items() if kk not in ("trace",)}))
        self.violations.append((v, path))
        return "violation"

    def finish(self):
        for kid, (k, n, v) in sorted(self.known_hits.items()):
            print(f"KNOWN-FINDING: property={self.prop} {kid}: {k['what']} "
                  f"[{n} occurrence(s), e.g. {str(v.get('msg'))[:160]}]")
        shown = {}
        hidden = 0
        for v, path in self.violations:
            sg = (v.get("kind"), v.get("cls"))
            shown[sg] = shown.get(sg, 0) + 1
            if shown[sg] > 3:
                hidden += 1
                continue
            print(f"VIOLATION property={self.prop} replay={path}")
            print(f"    kind={v.get('kind')} cls={v.get('cls')} {str(v.get('msg'))[:300]}")
        if hidden:
            print(f"    ... and {hidden} more violation(s) with the same kind (replays written)")
        return 1 if self.violations else 0
