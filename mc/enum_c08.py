"""C08 -- order-consistent delay arithmetic: bounded-exhaustive enumeration of
every TieredInterval shape (pre_length, length <= L, cutoff) with tier values
0..K and every TieredTime of matching length with values 0..K+1, checking the
algebraic laws with the real operators.
"""
from __future__ import annotations

import itertools
import time

from . import env, evidence, findings  # noqa: F401

from mosaik.tiered_time import TieredInterval, TieredTime

try:
    from mosaik.scenario import update_min
except Exception:  # pragma: no cover
    update_min = None


def intervals(L, K):
    """all intervals grouped by (pre_length, length)"""
    out = {}
    for p in range(1, L + 1):
        for n in range(1, L + 1):
            lst = []
            for c in range(1, min(p, n) + 1):
                for tiers in itertools.product(range(K + 1), repeat=n):
                    lst.append(TieredInterval(*tiers, cutoff=c, pre_length=p))
            out[(p, n)] = lst
    return out


def times(n, K):
    return [TieredTime(*t) for t in itertools.product(range(K + 2), repeat=n)]


def lt(a, b):
    """(value, comparable)"""
    try:
        return bool(a < b), True
    except AssertionError:
        return None, False


def mixed_tie(a, b):
    """classifier of F8: the tiers tie up to and including a position where exactly one of
    the two intervals is cut off"""
    for i, (s, o) in enumerate(zip(a.tiers, b.tiers)):
        if s != o:
            return False
        if (a.cutoff <= i) != (b.cutoff <= i):
            return True
    return False


def desc(x):
    if isinstance(x, TieredInterval):
        return dict(tiers=list(x.tiers), cutoff=x.cutoff, pre_length=x.pre_length)
    return dict(time=list(x.tiers))


def mk(d):
    if "time" in d:
        return TieredTime(*d["time"])
    return TieredInterval(*d["tiers"], cutoff=d["cutoff"], pre_length=d["pre_length"])


class Ctx:
    def __init__(self):
        self.viol = []
        self.n = dict(pairs=0, comparable=0, incomparable=0, triples=0, actions=0, assoc=0,
                      lt_true=0, eq_true=0, mins=0)

    def add(self, kind, msg, cls, **inputs):
        self.viol.append(dict(prop="C08", kind=kind, cls=cls, msg=msg,
                              inputs={k: desc(v) for k, v in inputs.items()}))


def check_pair(cx, a, b, ts):
    cx.n["pairs"] += 1
    ab, c1 = lt(a, b)
    ba, c2 = lt(b, a)
    if c1 != c2:
        cx.add("comparability-asymmetric", f"{a!r} < {b!r} comparable={c1} but converse comparable={c2}",
               "mixed-cutoff-tie" if mixed_tie(a, b) else None, a=a, b=b)
        return
    if not c1:
        cx.n["incomparable"] += 1
        return
    cx.n["comparable"] += 1
    eq = a == b
    cls = "mixed-cutoff-tie" if mixed_tie(a, b) else None
    k = int(ab) + int(ba) + int(eq)
    if k != 1:
        cx.add("trichotomy", f"{a!r} vs {b!r}: a<b={ab} b<a={ba} a==b={eq}", cls, a=a, b=b)
    try:
        gt = a > b
        if bool(gt) != bool(ba):
            cx.add("gt-not-converse", f"{a!r} > {b!r} is {gt} but b<a is {ba}", cls, a=a, b=b)
    except AssertionError:
        pass
    if ab:
        cx.n["lt_true"] += 1
    if eq:
        cx.n["eq_true"] += 1
    # monotone action
    if ab or eq:
        for t in ts:
            cx.n["actions"] += 1
            ta, tb = t + a, t + b
            if ab and not ta <= tb:
                cx.add("not-monotone", f"{a!r} < {b!r} but {t!r}+a={ta!r} > {t!r}+b={tb!r}", cls,
                       a=a, b=b, t=t)
                break
            if eq and ta != tb:
                cx.add("equal-but-different-action", f"{a!r} == {b!r} but {ta!r} != {tb!r}", cls,
                       a=a, b=b, t=t)
                break
    # min / update_min return a pointwise minimum
    cx.n["mins"] += 1
    try:
        m = min(a, b)
        um = update_min(a, b) if update_min else None
    except AssertionError:
        return
    for t in ts:
        tm = t + m
        if not (tm <= t + a and tm <= t + b):
            cx.add("min-not-minimum", f"min({a!r},{b!r})={m!r} but for t={t!r}: {tm!r} vs {t + a!r}, {t + b!r}",
                   cls, a=a, b=b, t=t)
            break
        if update_min:
            r = a if um is None else um
            if not (t + r <= t + a and t + r <= t + b):
                cx.add("update-min-not-minimum",
                       f"update_min({a!r},{b!r}) keeps {r!r} but for t={t!r}: {t + r!r} vs "
                       f"{t + a!r}, {t + b!r}", cls, a=a, b=b, t=t)
                break


def check_never_backwards(cx, a, ts):
    for t in ts:
        r = t + a
        c = a.cutoff
        if r.tiers[:c] < t.tiers[:c] or r.tiers[0] < t.tiers[0]:
            cx.add("moves-backwards", f"{t!r} + {a!r} = {r!r}", None, a=a, t=t)
            return
        if len(r) != len(a):
            cx.add("wrong-length", f"{t!r} + {a!r} = {r!r}", None, a=a, t=t)
            return


def check_transitivity(cx, grp):
    n = len(grp)
    rel = [[lt(a, b) for b in grp] for a in grp]
    for i in range(n):
        for j in range(n):
            v1, c1 = rel[i][j]
            if not (c1 and v1):
                continue
            for k in range(n):
                v2, c2 = rel[j][k]
                if not (c2 and v2):
                    continue
                cx.n["triples"] += 1
                v3, c3 = rel[i][k]
                if c3 and not v3:
                    a, b, c = grp[i], grp[j], grp[k]
                    cls = "mixed-cutoff-tie" if (mixed_tie(a, b) or mixed_tie(b, c) or mixed_tie(a, c)) else None
                    cx.add("not-transitive", f"{a!r} < {b!r} < {c!r} but not a < c", cls, a=a, b=b, c=c)


def check_assoc(cx, ivs, K):
    """(a+b)+c == a+(b+c) and (t+a)+b == t+(a+b) on all composable triples"""
    for (p0, n0), As in ivs.items():
        ts = times(p0, K)
        for (p1, n1), Bs in ivs.items():
            if p1 != n0:
                continue
            for a in As:
                for b in Bs:
                    cx.n["assoc"] += 1
                    ab = a + b
                    if ab.pre_length != a.pre_length or len(ab) != len(b):
                        cx.add("sum-shape", f"{a!r}+{b!r}={ab!r}", None, a=a, b=b)
                        continue
                    for t in ts:
                        if (t + a) + b != t + ab:
                            cx.add("action-law", f"({t!r}+{a!r})+{b!r} = {(t + a) + b!r} but "
                                   f"t+(a+b) = {t + ab!r}", None, a=a, b=b, t=t)
                            break
            for (p2, n2), Cs in ivs.items():
                if p2 != n1:
                    continue
                for a in As:
                    for b in Bs:
                        ab = a + b
                        for c in Cs:
                            cx.n["assoc"] += 1
                            if (ab + c) != (a + (b + c)):
                                cx.add("not-associative", f"({a!r}+{b!r})+{c!r} = {ab + c!r} but "
                                       f"a+(b+c) = {a + (b + c)!r}", None, a=a, b=b, c=c)


def run(L, K, La, Ka, Lt, Kt):
    cx = Ctx()
    ivs = intervals(L, K)
    for (p, n), grp in ivs.items():
        ts = times(p, K)
        for a in grp:
            check_never_backwards(cx, a, ts)
        for a in grp:
            for b in grp:
                check_pair(cx, a, b, ts)
    for (p, n), grp in intervals(Lt, Kt).items():
        check_transitivity(cx, grp)
    check_assoc(cx, intervals(La, Ka), Ka)
    return cx


def replay(doc):
    ins = {k: mk(v) for k, v in doc["inputs"].items()}
    cx = Ctx()
    kind = doc["violation"]["kind"]
    a, b = ins.get("a"), ins.get("b")
    if kind in ("not-associative",):
        c = ins["c"]
        print(f"(a+b)+c = {(a + b) + c!r}; a+(b+c) = {a + (b + c)!r}")
        return 1 if (a + b) + c != a + (b + c) else 0
    if kind == "not-transitive":
        c = ins["c"]
        r = (lt(a, b), lt(b, c), lt(a, c))
        print("a<b, b<c, a<c =", r)
        return 1 if r[0][0] and r[1][0] and r[2][1] and not r[2][0] else 0
    if kind == "moves-backwards":
        t = ins["t"]
        print(f"{t!r} + {a!r} = {t + a!r}")
        return 1
    ts = [ins["t"]] if "t" in ins else times(a.pre_length, 2)
    check_pair(cx, a, b, ts)
    for v in cx.viol:
        print("REPRODUCED", v["kind"], v["msg"])
    return 1 if any(v["kind"] == kind for v in cx.viol) else 0


def vkey(v):
    ins = v["inputs"]
    return v["kind"] + "|" + "|".join(
        f"{k}={ins[k].get('tiers', ins[k].get('time'))}/{ins[k].get('cutoff')}/{ins[k].get('pre_length')}"
        for k in ("a", "b") if k in ins)


def recorded_file(tier):
    import os
    return os.path.join(env.VERIF_DIR, "findings", f"F8_failing_inputs_{tier}.json")


def load_recorded(tier):
    import json
    try:
        with open(recorded_file(tier)) as f:
            return set(json.load(f)["keys"])
    except FileNotFoundError:
        return None


def record(tier):
    """(maintenance, never called by a check) write the failing-input set of the current tree"""
    import json
    L = dict(quick=(3, 2, 2, 2, 3, 1), thorough=(4, 2, 3, 1, 3, 2))[tier]
    cx = run(*L)
    keys = sorted({vkey(v) for v in cx.viol if v["cls"] == "mixed-cutoff-tie"})
    with open(recorded_file(tier), "w") as f:
        json.dump(dict(bound=L, n=len(keys), keys=keys), f)
    return len(keys)


IN_VIVO = ("two_delays_same_pair", "two_delays_same_pair_rev", "two_trigger_delays",
           "two_trigger_delays_rev", "two_delays_shift2_pair", "two_delays_shift2_pair_rev",
           "two_paths_shift2", "E_chain_shift_last_W", "sibling_groups", "nested_groups",
           "weak_and_shift_init", "loop_weak_then_plain", "group_reentry", "nested_detour", "two_trigger_delays_upstream",
           "two_trigger_delays_upstream_rev", "shift_weak_direct_and_relayed",
           "weak_direct_plus_plain_path")


def in_vivo(rep):
    """The delays accumulated by the scenario layer (minimum over the connections of a pair,
    minimum over paths) are exercised where they are used: scenarios with several connections
    of different delay between one pair / several paths are explored (all schedules) and the
    C01 / C02 / C05 / C07 monitors judge them against the reference delays; a violation there means
    that delays were compared or combined inconsistently."""
    from . import sched, scenarios
    jobs = [j for j in sched.quick_jobs(env.seed()) if j["name"] in IN_VIVO and j["budget"] == 0]
    res = sched.run_jobs(jobs)
    n = dict(jobs=len(jobs), execs=0, states=0)
    for job, r in zip(jobs, res):
        if r.get("error"):
            raise RuntimeError(r["error"])
        n["execs"] += r["execs"]
        n["states"] += r["states"]
        for v in r["viols"]:
            if v["prop"] in ("C01", "C02", "C05", "C07") and v.get("cls") is None:
                rep.report(dict(prop="C08", kind="accumulated-delay-wrong-in-vivo", cls=None,
                                msg=f"{job['name']} [{sched._cfgs(job['cfg'])}]: "
                                    f"[{v['prop']}/{v['kind']}] {v['msg']}"),
                           dict(kind="schedule", scenario=job["scen"], cfg=job["cfg"],
                                name=job["name"], choices=v.get("choices"), names=v.get("names"),
                                orig=dict(prop=v["prop"], kind=v["kind"])))
    return n


def check(prop, tier):
    t0 = time.time()
    if tier == "quick":
        L, K, La, Ka, Lt, Kt = 3, 2, 2, 2, 3, 1
    else:
        L, K, La, Ka, Lt, Kt = 4, 2, 3, 1, 3, 2
    cx = run(L, K, La, Ka, Lt, Kt)
    rep = findings.Reporter("C08")
    seen = {}
    # F8 is recorded as the *exact set* of failing inputs at this bound
    # (findings/F8_failing_inputs_<tier>.json): the predicate `mixed-cutoff-tie` alone would
    # also cover a change that merely alters how such pairs fail
    recorded = load_recorded(tier)
    new_in_class = 0
    for v in cx.viol:
        sg = (v["kind"], v["cls"])
        seen[sg] = seen.get(sg, 0) + 1
        if v["cls"] is not None and recorded is not None and vkey(v) not in recorded:
            v = dict(v, cls=None, msg=v["msg"] + "  [not among the failing inputs recorded for F8]")
            new_in_class += 1
            if new_in_class > 5:
                continue
        elif v["cls"] is None and seen[sg] > 5:
            continue     # enough replay files for one unclassified kind
        rep.report(v, dict(kind="call", module="mc.enum_c08", inputs=v["inputs"]))
    vivo = in_vivo(rep)
    rc = rep.finish()
    n = cx.n
    cov = dict(
        states=n["pairs"] + n["triples"], transitions=n["actions"] + n["assoc"] + n["mins"] + 2 * n["pairs"],
        traces_validated_against_impl=n["pairs"] + n["triples"] + n["assoc"],
        evaluations=n["pairs"] + n["triples"] + n["assoc"], distinct_nontrivial=n["comparable"],
        rule=f"every ordered pair of TieredIntervals of equal (pre_length, length) with length<={L}, "
             f"tiers 0..{K}, every cutoff; every time with values 0..{K + 1}; transitivity on all "
             f"triples with L={Lt},K={Kt}; associativity/action law on all composable pairs/triples "
             f"with L={La},K={Ka}; a pair is non-trivial when it is comparable (no assertion)",
        samples=[dict(a=desc(TieredInterval(1, 0, cutoff=1, pre_length=2)),
                      b=desc(TieredInterval(0, 2, cutoff=2, pre_length=2)),
                      law="trichotomy, monotone action over all t in {0..3}^2")],
        exhaustive=True, counts=n, in_vivo=vivo, violation_kinds={f"{k[0]}|{k[1]}": c for k, c in seen.items()},
        known_findings_hit={k: v[1] for k, v in rep.known_hits.items()},
    )
    evidence.write("C08", tier, "model_checking", cov,
                   ["tier values are non-negative (as mosaik constructs them)",
                    "comparable := neither a<b nor b<a raises the 'incomparable' assertion"],
                   time.time() - t0, len(rep.violations))
    print(f"C08 {tier}: pairs={n['pairs']} comparable={n['comparable']} triples={n['triples']} "
          f"assoc={n['assoc']} actions={n['actions']} violations={len(rep.violations)} "
          f"wall={time.time() - t0:.1f}s")
    return rc
