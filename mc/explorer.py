"""Explicit-state exploration of reply-delivery schedules on the real code.

An execution is determined by its *choice sequence*:
  ('q', i)        release the i-th pending gate (sorted by name) at quiescence
  ('e', i|None)   at a non-quiescent loop iteration: release the i-th pending
                  gate early (costs one unit of the deviation budget) or not
``run_one(prefix)`` builds a fresh loop + world, replays ``prefix`` (a choice
of the wrong kind or out of range is a hard error: divergence) and continues
with defaults (index 0 / None).  ``explore`` is a depth-first search over
prefixes with state merging at quiescent points; every merge is validated
(same canonical state => same default continuation, compared on the observed
event suffix and outcome).
"""
from __future__ import annotations

import collections
import hashlib
import json
import time

from . import statehash
from .harness import Run
from .monitors import Monitor, per_sim_view


class Divergence(Exception):
    """A recorded choice sequence could not be replayed."""


class UnsoundMerge(Exception):
    """Two prefixes reached one canonical state but continued differently."""


class Exec:
    __slots__ = ("run", "points", "result", "viol", "view", "choices")


def run_one(scen, cfg, prefix=(), budget=0, hashing=True, names=None, timer_choice=False,
            seen=None):
    """Execute once.  Returns Exec; points[i] = (kind, choice, nopts, key, used, tracelen)."""
    points = []
    it = iter(prefix)
    npre = len(prefix)
    used = [0]
    hist = collections.defaultdict(lambda: hashlib.sha1())
    mon = Monitor(scen, cfg)
    holder = {}

    def on_event(ev):
        if ev[0] in ("B", "S", "G", "D", "AS", "AR", "AG", "F", "U") and len(ev) > 1:
            hist[ev[1]].update(repr(ev).encode())
        mon.feed(ev)

    def key():
        r = holder["run"]
        extra = (tuple(sorted((sid, h.hexdigest()) for sid, h in hist.items())),
                 tuple(sorted((sid, v) for sid, v in mon.cur.items())))
        return (statehash.canon(r, extra), used[0])

    def chooser(loop, live):
        i = len(points)
        if i < npre:
            c = next(it)
            if c[0] != "q" or c[1] >= len(live):
                raise Divergence(f"point {i}: recorded {c}, live gates {live}")
            if names is not None and names[i] is not None and repr(live[c[1]]) != names[i]:
                raise Divergence(f"point {i}: recorded gate {names[i]}, found {live[c[1]]!r}")
            k = None
        else:
            c = ("q", 0)
            k = key() if hashing and not holder.get("hit") else None
            if k is not None and seen is not None and k in seen:
                holder["hit"] = True      # the rest of this execution is a known subtree
        points.append(("q", c[1], len(live), k, used[0], len(holder["run"].trace), repr(live[c[1]])))
        return live[c[1]]

    def early(loop, live):
        i = len(points)
        if i < npre:
            c = next(it)
            if c[0] != "e" or (c[1] is not None and c[1] >= len(live)):
                raise Divergence(f"point {i}: recorded {c}, live gates {live} (early)")
        else:
            c = ("e", None)
        nm = None if c[1] is None else repr(live[c[1]])
        if names is not None and i < npre and names[i] is not None and nm != names[i]:
            raise Divergence(f"point {i}: recorded early gate {names[i]}, found {nm}")
        points.append(("e", c[1], len(live), None, used[0], len(holder["run"].trace), nm))
        if c[1] is None:
            return None
        used[0] += 1
        return live[c[1]]

    r = Run(scen, cfg, chooser, early if (budget > 0 or any(c[0] == "e" for c in prefix)) else None)
    r.loop.timer_choice = timer_choice
    holder["run"] = r
    r.on_event = on_event
    res = r.execute()
    if len(points) < npre:
        raise Divergence(f"execution ended after {len(points)} of {npre} recorded choices")
    x = Exec()
    x.run = r
    x.points = points
    x.result = res
    x.viol = mon.finish(res)
    x.view = per_sim_view(r.trace)
    x.choices = [(p[0], p[1]) for p in points]
    return x


def _sig(x, i):
    """observable default continuation after point i"""
    tl = x.points[i][5]
    h = hashlib.sha1(repr(x.run.trace[tl:]).encode())
    h.update(repr(x.result).encode())
    return h.hexdigest()


def explore(scen, cfg, budget=0, max_exec=5000, validate_merges=True, stateless=False,
            post=None, timer_choice=False):
    """Explore all schedules of (scen, cfg) with at most `budget` early deliveries.

    Returns a JSON-able summary dict.  `post(x)` may return extra violations for
    an execution (used by the fault/shutdown monitors).
    """
    t0 = time.time()
    stack = [[]]
    seen = {}
    n = 0
    trans = 0
    merges = 0
    outcomes = collections.Counter()
    viols = collections.OrderedDict()     # signature -> example
    views = collections.OrderedDict()     # view json -> example choices
    max_depth = 0
    capped = False
    sample = None
    nviol_exec = 0
    while stack:
        if n >= max_exec:
            capped = True
            break
        p = stack.pop()
        x = run_one(scen, cfg, p, budget, hashing=not stateless, timer_choice=timer_choice,
                    seen=seen)
        n += 1
        max_depth = max(max_depth, len(x.points))
        outcomes[_outcome_key(x.result)] += 1
        vs = list(x.viol)
        if post is not None:
            vs.extend(post(x) or [])
        if vs:
            nviol_exec += 1
        for v in vs:
            sg = (v["prop"], v["kind"], v.get("cls"), v.get("sim"))
            if sg not in viols:
                viols[sg] = dict(v, choices=x.choices, names=[pt[6] for pt in x.points],
                                 result=list(x.result), trace=x.run.trace[:400])
            viols[sg]["count"] = viols[sg].get("count", 0) + 1
        fv = json.dumps({k: v for k, v in sorted(x.view.items())}, sort_keys=True)
        if fv not in views:
            views[fv] = dict(choices=x.choices, result=list(x.result),
                             c03=sorted({str(v.get("cls")) for v in vs if v["prop"] == "C03"}))
        if sample is None:
            sample = dict(choices=x.choices, result=list(x.result),
                          trace=[list(e) for e in x.run.trace[:60]])
        for i in range(len(p), len(x.points)):
            kind, c, nopts, key, ub, tl, nm = x.points[i]
            if kind == "q":
                if not stateless:
                    if key in seen:
                        merges += 1
                        if validate_merges and seen[key] != _sig(x, i):
                            raise UnsoundMerge(
                                f"state {key} reached by {x.choices[:i]} continues differently")
                        break
                    seen[key] = _sig(x, i) if validate_merges else None
                trans += nopts
                pre = x.choices[:i]
                for alt in range(nopts - 1, 0, -1):
                    stack.append(pre + [("q", alt)])
            else:
                if ub < budget:
                    pre = x.choices[:i]
                    trans += nopts
                    for alt in range(nopts - 1, -1, -1):
                        stack.append(pre + [("e", alt)])
    return dict(
        execs=n, states=len(seen) if not stateless else n, transitions=trans, merges=merges,
        outcomes=dict(outcomes), viols=list(viols.values()), views=list(views.items()),
        nviews=len(views), max_depth=max_depth, capped=capped, wall=time.time() - t0,
        sample=sample, viol_execs=nviol_exec, budget=budget,
    )


def _outcome_key(res):
    if res[0] == "exc":
        return f"exc:{res[1]}:{res[2][:60]}"
    return res[0]


def replay(scen, cfg, choices, names=None, budget=None, timer_choice=False):
    """Re-execute one recorded choice sequence without the explorer."""
    choices = [tuple(c) for c in choices]
    b = sum(1 for c in choices if c[0] == "e" and c[1] is not None)
    return run_one(scen, cfg, choices, budget if budget is not None else b,
                   hashing=False, names=names, timer_choice=timer_choice)
