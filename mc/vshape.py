"""Value shapes: what the provenance tokens of the stubs look like *on the wire*.

The monitors reason about string tokens (``A3``, ``A3e``, ``A3F``, ``B1s``, ``init_A``).  With the
configuration entry ``vshape`` the stubs hand mosaik an *encoding* of the token instead and decode
the inputs they receive before recording them, so that every oracle is unchanged while mosaik's
data path sees

* ``num``  -- numbers, including the falsy values ``0``, ``""``, ``False``, ``[]`` and ``{}`` for
  the first five measurement tokens of the first simulator / event tokens of the others (code that
  tests ``if value`` where it means ``is not None`` treats those as missing);
* ``dict`` -- dictionaries whose key sets differ from step to step (mosaik's input merging is
  three levels deep by contract; a fourth level would blend two values into one).

The encoding is a bijection per source simulator; anything that does not decode (a blended
dictionary, a number nobody produced) is recorded as ``UNDECODABLE:<json>`` and therefore differs
from every expected value.
"""
from __future__ import annotations

import json
import re

_TOK = re.compile(r"^(init_)?(.+?)(\d+)?(F)?([es])?$")
FALSY = [0, "", False, [], {}]


def _strict_index(v):
    for i, f in enumerate(FALSY):
        if type(v) is type(f) and v == f:
            return i
    return None


def _parse(token, sids):
    """(init, sim index, k, F, kind) of a token, or None"""
    init = token.startswith("init_")
    body = token[5:] if init else token
    for i, sid in sorted(enumerate(sids), key=lambda x: -len(x[1])):
        if body.startswith(sid):
            rest = body[len(sid):]
            m = re.match(r"^(\d+)?([FK])?([es])?$", rest)
            if not m:
                continue
            if init and (m.group(1) or m.group(3)):
                continue
            if not init and m.group(1) is None:
                continue
            return init, i, int(m.group(1) or 0), {None: 0, "F": 1, "K": 2}[m.group(2)], m.group(3) or ""
    return None


def enc(shape, token, sids):
    if shape in (None, "str") or token is None or not isinstance(token, str):
        return token
    p = _parse(token, sids)
    if p is None:
        return token
    init, i, k, f, kind = p
    if shape == "dict":
        return {"tok": token, "k" + token: k}
    if shape == "num":
        if init:
            return -(i * 3 + f + 1)
        if not f and k < len(FALSY) and ((i == 0 and kind == "") or (i > 0 and kind == "e")):
            return FALSY[k]
        if kind == "s" and k == 0 and not f:
            return 0.0          # a falsy set_data value
        return ((i * 50 + k) * 3 + f) * 4 + {"": 0, "e": 1, "s": 2}[kind] + 1000
    raise ValueError(shape)


def dec(shape, value, src_sid, sids):
    if shape in (None, "str") or value is None:
        return value
    bad = "UNDECODABLE:" + json.dumps(value, sort_keys=True, default=repr)
    if shape == "dict":
        if isinstance(value, dict) and isinstance(value.get("tok"), str) \
                and set(value) == {"tok", "k" + value["tok"]}:
            return value["tok"]
        return bad
    if shape == "num":
        try:
            i = sids.index(src_sid)
        except ValueError:
            return bad
        fi = _strict_index(value)
        if fi is not None:
            return f"{src_sid}{fi}" + ("" if i == 0 else "e")
        if type(value) is float and value == 0.0:
            return f"{src_sid}0s"
        if isinstance(value, bool) or not isinstance(value, int):
            return bad
        if value < 0:
            c = -value - 1
            return "init_" + sids[c // 3] + ["", "F", "K"][c % 3] if c // 3 < len(sids) else bad
        c = value - 1000
        if c < 0:
            return bad
        kind = {0: "", 1: "e", 2: "s"}.get(c % 4)
        c //= 4
        f = c % 3
        c //= 3
        k, j = c % 50, c // 50
        if kind is None or j >= len(sids):
            return bad
        return f"{sids[j]}{k}{['', 'F', 'K'][f]}{kind}"
    raise ValueError(shape)


def dec_inputs(shape, inputs, sids):
    """decode the `inputs` argument of step(): {eid: {attr: {src_full_id: value}}}"""
    if shape in (None, "str"):
        return inputs
    out = {}
    for e, av in inputs.items():
        out[e] = {}
        for a, kv in av.items():
            out[e][a] = {}
            for src, v in kv.items():
                out[e][a][src] = dec(shape, v, src.split(".")[0], sids)
    return out
