"""Build a mosaik ``World`` from a scenario description and run it to
completion on a ``VLoop`` under a given chooser.  One ``Run`` = one execution.
"""
from __future__ import annotations

import asyncio
import gc
import itertools
import warnings

from . import env  # noqa: F401  (must come first: selects the tree under test)
from . import stubs
from .vloop import VLoop, Deadlock, Livelock

import mosaik
from mosaik import scheduler as _sched

try:
    import mosaik._debug as _dbg
except Exception:  # pragma: no cover
    _dbg = None

SIM_CONFIG_LOCAL = {"Stub": {"python": "mc.stubs:StubSim"}}
SIM_CONFIG_MEM = {"Stub": {"mem": "mc.stubs:StubSim"}}

DEFAULT_CFG = dict(lazy=True, cache=True, debug=False, transport="local",
                   order=None, gates=("step", "get_data"))


def _install_clock(loop):
    """perf_counter := virtual time + n*2^-30 (strictly increasing, as a real
    perf_counter is)."""
    cnt = itertools.count(1)

    def perf_counter():
        return loop.time() + next(cnt) * 2.0 ** -30

    for mod in (_sched, _dbg):
        if mod is not None and hasattr(mod, "perf_counter"):
            mod.perf_counter = perf_counter
    # also for code that calls time.perf_counter() through the module (restored by Run.execute)
    import time as _time
    if not hasattr(_time, "_verif_real_perf_counter"):
        _time._verif_real_perf_counter = _time.perf_counter
    _time.perf_counter = perf_counter
    return perf_counter


class LogList(list):
    """log records of a run; remembers the trace position and virtual time of each record"""

    def __init__(self, run):
        super().__init__()
        self.run = run
        self.at = []

    def append(self, item):
        super().append(item)
        self.at.append((len(self.run.trace), self.run.loop.time()))


# Iteration order of sets of SimRunner objects (the work lists of the cycle check and of the
# ancestor closure) follows their hashes, which by default are memory addresses: a source of
# nondeterminism that the harness has to own.  Every run gives its simulators small integer
# hashes in a chosen order (default: start order; `hash_order` in the configuration).
HASH_OF = {}


def _install_hash():
    from mosaik.simmanager import SimRunner
    if getattr(SimRunner, "_mc_hash", False):
        return

    def __hash__(self):
        try:
            return HASH_OF[self.sid]
        except (AttributeError, KeyError):
            return object.__hash__(self)
    SimRunner.__hash__ = __hash__
    SimRunner._mc_hash = True


class Run:
    def __init__(self, scen, cfg, chooser, early=None):
        self.scen = scen
        self.cfg = dict(DEFAULT_CFG, **cfg)
        self.trace = []
        self.stubs = {}
        self.logs = LogList(self)
        self.gated = False
        self.gate_kinds = tuple(self.cfg.get("gates") or ())
        # simulators that answer synchronously (never yield to the loop inside a request),
        # like the in-process simulators of the test-suite; "all" or a list of sids
        sy = self.cfg.get("sync") or ()
        self.sync = {s["sid"] for s in scen["sims"]} if sy == "all" else set(sy)
        self.loop = VLoop(chooser, early,
                          max_iterations=self.cfg.get("max_iterations", 12000))
        self.loop_errors = []
        self.fault_done = False          # set by the fault injector at the moment of the fault
        self.stuck_after_fault = None
        self.loop.on_quiescent = self._on_quiescent
        self.world = None
        self.result = None
        self.remote_tasks = []
        self.channels = []
        self.on_event = None
        self.dead = False
        self.max_events = int(self.cfg.get("max_events", 1500))
        self.times = []
        self.latency = None
        self.on_setup_done = None
        # value shape on the wire (mc/vshape.py); the monitors always see the string tokens
        self.vshape = self.cfg.get("vshape") or None
        self.sids = sorted(s["sid"] for s in scen["sims"])

    # -- trace ---------------------------------------------------------------
    def ev(self, *a):
        if self.dead:
            return        # a stale simulator object of a finished run (finalized by the GC)
        self.trace.append(a)
        if len(self.trace) > self.max_events:
            # a run that never ends (e.g. a same-time loop that nothing stops any more)
            raise Livelock(f"more than {self.max_events} simulator events")
        self.times.append(self.loop.time())
        if self.on_event is not None:
            self.on_event(a)

    def inject_fault(self, stub, f):   # overridden by the fault harness
        raise RuntimeError(f"injected fault in {stub.sid}")
        yield  # pragma: no cover

    # -- building --------------------------------------------------------------
    def build(self):
        scen, cfg, loop = self.scen, self.cfg, self.loop
        asyncio.set_event_loop(loop)
        _install_clock(loop)
        loop.set_exception_handler(lambda l, c: self.loop_errors.append(c))
        if cfg["transport"] == "mem":
            from . import transport
            transport.install()
            simcfg = SIM_CONFIG_MEM
        else:
            simcfg = SIM_CONFIG_LOCAL
        simcfg = dict(simcfg)
        key = "mem" if cfg["transport"] == "mem" else "python"
        for s_ in scen["sims"]:
            if s_.get("cls") or s_.get("cfg_version"):
                entry = {key: f"mc.stubs:{s_.get('cls', 'StubSim')}"}
                if s_.get("cfg_version"):
                    entry["api_version"] = s_["cfg_version"]
                # `entry`: several simulators started from ONE sim_config entry (the first
                # simulator naming it defines it)
                simcfg.setdefault(s_.get("entry") or f"Stub_{s_['sid']}", entry)
        kw = {}
        if "time_resolution" in scen:
            kw["time_resolution"] = scen["time_resolution"]
        w = mosaik.World(
            simcfg, skip_greetings=True, asyncio_loop=loop,
            cache=cfg["cache"], debug=cfg["debug"],
            max_loop_iterations=scen.get("max_loop", 100), **kw)
        self.world = w
        groups = {None: w.main_group}
        for gid, parent in scen.get("groups", {}).items():
            w.current_group = groups[parent]
            with w.group():
                groups[gid] = w.current_group
        ents, ents2 = {}, {}
        byid = {s["sid"]: s for s in scen["sims"]}
        order = cfg.get("order") or scen.get("order") or [s["sid"] for s in scen["sims"]]
        _install_hash()
        HASH_OF.clear()
        for i, sid in enumerate(cfg.get("hash_order") or order):
            HASH_OF[sid] = i + 1
        for sid in order:
            s = byid[sid]
            w.current_group = groups[s.get("group")]
            with warnings.catch_warnings():
                warnings.simplefilter("ignore")
                name = (s.get("entry") or f"Stub_{sid}") if (s.get("cls") or s.get("cfg_version")) else "Stub"
                factory = w.start(name, sim_id=sid, spec=s)
                for meth in s.get("extra_calls", ()):
                    try:
                        ret = getattr(factory, meth)(7, key="v")
                        self.ev("XR", sid, meth, "ok", repr(ret))
                    except Exception as e:  # noqa: BLE001
                        self.ev("XR", sid, meth, type(e).__name__, str(e)[:80])
                mock = factory.M
                if s.get("ents", 1) == 2:
                    ents[sid], ents2[sid] = mock.create(2)
                else:
                    ents[sid] = mock()
        w.current_group = w.main_group
        self.ents = ents
        for c in scen["conns"]:
            kw = {}
            if c.get("shift"):
                kw["time_shifted"] = c["shift"] if c["shift"] != 1 else True
            if c.get("weak"):
                kw["weak"] = True
            if c.get("init"):
                from . import vshape as _vs
                kw["initial_data"] = {c["sattr"]: _vs.enc(self.vshape, init_token(c), self.sids)}
            if c.get("async"):
                kw["async_requests"] = True
            pairs = [(c["sattr"], c["dattr"])] if c.get("sattr") else []
            with warnings.catch_warnings():
                warnings.simplefilter("ignore")
                dst_ent = ents2[c["dst"]] if c.get("deid") == "f" else ents[c["dst"]]
                if c.get("deid") == "k":
                    dst_ent = dst_ent.children[0]
                src_ent = ents2[c["src"]] if c.get("seid") == "f" else ents[c["src"]]
                if c.get("seid") == "k":
                    src_ent = src_ent.children[0]
                if c.get("rejected"):
                    # a connect() call that names only an attribute that does not exist: mosaik
                    # refuses it, the script handles the error -- nothing may remain of it
                    from mosaik.exceptions import ScenarioError
                    try:
                        w.connect(src_ent, dst_ent, ("zz_missing", c.get("dattr") or "ti"), **kw)
                        raise AssertionError("connect() accepted an unknown source attribute")
                    except ScenarioError:
                        pass
                elif cfg.get("badpair") and pairs:
                    # the user's connect() call names one more pair that mosaik has to reject (an
                    # attribute that does not exist) and handles the error: the valid pairs of the
                    # call must be connected exactly as if they had been given alone
                    from mosaik.exceptions import ScenarioError
                    try:
                        w.connect(src_ent, dst_ent, *(pairs + [("zz_missing", c["dattr"])]), **kw)
                        raise AssertionError("connect() accepted an unknown source attribute")
                    except ScenarioError:
                        pass
                else:
                    w.connect(src_ent, dst_ent, *pairs, **kw)
        for s in scen["sims"]:
            if s.get("init_event") is not None:
                # a list: several calls for one simulator, in this order ("an initial step",
                # singular: the last call is the one that counts)
                ie = s["init_event"]
                for t in (ie if isinstance(ie, list) else [ie]):
                    w.set_initial_event(s["sid"], t)
        return w

    def _on_quiescent(self, loop, live, timers):
        # after a fault that mosaik sees at once, run() must come to an end by itself: a quiescent
        # loop without any timer that is still running can only go on when a SURVIVING simulator
        # answers -- which a stuck one never does
        if self.fault_done and not timers and self.stuck_after_fault is None:
            self.stuck_after_fault = [repr(g) for g in live][:4]

    # -- running ---------------------------------------------------------------
    def execute(self):
        stubs.CTX = self
        env.LOG_SINK.append(self.logs)
        loop = self.loop
        try:
            try:
                w = self.build()
            except BaseException as e:  # noqa: BLE001
                self.result = ("build-exc", type(e).__name__, str(e)[:300])
                return self.result
            self.gated = True
            kw = {}
            if self.scen.get("rt_factor") is not None:
                kw["rt_factor"] = self.scen["rt_factor"]
                kw["rt_strict"] = bool(self.cfg.get("rt_strict", False))
            try:
                with warnings.catch_warnings():
                    warnings.simplefilter("ignore")
                    w.run(until=self.scen["until"], print_progress=False,
                          lazy_stepping=self.cfg["lazy"], **kw)
                res = ("ok",)
            except Deadlock:
                res = ("deadlock", self._waiters())
            except Livelock as e:
                res = ("livelock", str(e))
            except BaseException as e:  # noqa: BLE001
                res = ("exc", type(e).__name__, str(e)[:300])
            self.result = res
            if self.cfg.get("double_shutdown"):
                # the usual idiom `try: world.run() finally: world.shutdown()`: run() has already
                # shut the world down; the second call must not stop anybody again
                self.closed_by_mosaik = loop.is_closed()
                try:
                    w.shutdown()
                except BaseException as e:  # noqa: BLE001
                    self.ev("X", "-", "second-shutdown-raised", type(e).__name__, 0)
            return res
        finally:
            self.gated = False
            if not self.cfg.get("double_shutdown") or not hasattr(self, "closed_by_mosaik"):
                self.closed_by_mosaik = loop.is_closed()
            try:
                if not loop.is_closed():
                    loop.allow_idle = True
                    loop.close()
            except Exception:  # noqa: BLE001
                pass
            self.dead = True
            import time as _time
            if hasattr(_time, "_verif_real_perf_counter"):
                _time.perf_counter = _time._verif_real_perf_counter
            gc.collect(1)
            env.LOG_SINK.pop()
            stubs.CTX = None
            asyncio.set_event_loop(None)

    def _waiters(self):
        out = []
        try:
            for sid, sim in self.world.sims.items():
                for spec, fut in sim.progress._futures:
                    out.append(f"{sid}: waits {spec[0]!r} shift {spec[1]!r} "
                               f"{'passed' if spec[2] else 'reached'} (at {sim.progress.time!r})")
        except Exception:  # noqa: BLE001
            pass
        return "; ".join(out)[:400]


def init_token(c):
    return "init_" + c["src"] + {"f": "F", "k": "K"}.get(c.get("seid"), "")
