"""In-memory *remote* transport.

Registered through mosaik's documented extension point
``StarterCollection()['mem']``.  The complete real remote path is executed
(JSON framing, ``Channel``, ``RemoteProxy``, ``mosaik_api_v3.run_simulator``,
``RemoteMosaikProxy``), but the two directions are ``asyncio.StreamReader``s fed
by small writer objects instead of sockets, so it runs on the virtual loop,
deterministically and explorable.
"""
from __future__ import annotations

import asyncio
import importlib

import mosaik_api_v3
from mosaik_api_v3.connection import Channel

from . import stubs


class MemWriter:
    """Writer half of an in-memory duplex pipe.

    ``close`` behaves like a socket transport: the connection is lost one loop
    iteration later (``call_soon``), at which point both directions see EOF and
    ``wait_closed`` returns -- in this order, so that a reader blocked on the
    stream handles the EOF before the closer continues (as with
    ``StreamReaderProtocol.connection_lost``)."""

    def __init__(self, loop, own_reader, peer_reader, name):
        self.loop = loop
        self.own = own_reader
        self.peer = peer_reader
        self.name = name
        self.closed = False          # close() called or connection lost
        self.lost = False
        self.twin = None
        self._waiters = []
        self.die_after_write = None
        self.lost_write = "error"
        self.stop_requests = 0
        self.close_called = False
        self.write_failed = False

    def write(self, data):
        if self.closed:
            if self.lost_write == "error":
                self.write_failed = True     # the transport notices the loss and starts closing
            return
        if b'["stop",' in data:
            self.stop_requests += 1       # mosaik's stop request has been put on the wire
        if getattr(self.peer, "_eof", False):
            return
        self.peer.feed_data(data)
        if self.die_after_write is not None:
            # the process exits right after this reply: connection lost, task gone
            task, self.die_after_write = self.die_after_write, None
            self.close()
            task.cancel()

    async def drain(self):
        # a write after the connection was lost: the kernel either reports it
        # (ConnectionResetError 'Connection lost' from drain) or buffers the data silently
        # (first write to a dead peer); both happen with real sockets, so both are explored
        if self.closed and self.lost_write == "error":
            await asyncio.sleep(0)
            raise ConnectionResetError("Connection lost")

    def close(self):
        self.close_called = True
        if not self.closed:
            self.closed = True
            self.loop.call_soon(self._connection_lost)

    def _connection_lost(self):
        if self.lost:
            return
        self.lost = True
        for r in (self.own, self.peer):
            if not getattr(r, "_eof", False):
                r.feed_eof()
        if self.twin is not None:
            self.twin.closed = True
            self.twin.lost = True
            for w in self.twin._waiters:
                if not w.done():
                    w.set_result(None)
        for w in self._waiters:
            if not w.done():
                w.set_result(None)

    def is_closing(self):
        # EOF from the peer leaves a stream transport open for writing (half-open); it is
        # closing only after a local close() or a failed write
        return self.close_called or self.write_failed

    async def wait_closed(self):
        if self.lost:
            return
        w = self.loop.create_future()
        self._waiters.append(w)
        await w


def make_pipe(loop, name):
    r_m = asyncio.StreamReader(loop=loop)   # mosaik reads here
    r_s = asyncio.StreamReader(loop=loop)   # simulator reads here
    w_m = MemWriter(loop, r_m, r_s, name + ":m")  # mosaik writes into r_s
    w_s = MemWriter(loop, r_s, r_m, name + ":s")  # simulator writes into r_m
    w_m.twin, w_s.twin = w_s, w_m
    if stubs.CTX is not None:
        w_m.lost_write = w_s.lost_write = stubs.CTX.cfg.get("lost_write", "error")
    return (r_m, w_m), (r_s, w_s)


async def start_mem(mosaik_config, sim_name, sim_config, mosaik_remote):
    from mosaik.proxies import RemoteProxy
    ctx = stubs.CTX
    loop = asyncio.get_running_loop()
    mod_name, cls_name = sim_config["mem"].split(":")
    cls = getattr(importlib.import_module(mod_name), cls_name)
    sim = cls()
    (r_m, w_m), (r_s, w_s) = make_pipe(loop, sim_name)
    api_compliant = mosaik_api_v3.check_api_compliance(sim) if not getattr(
        sim, "quiet_compliance", False) else sim.api_compliant

    async def remote_main():
        ch = Channel(r_s, w_s)
        sim._mem_channel = ch
        try:
            await mosaik_api_v3.run_simulator(ch, sim, api_compliant=api_compliant)
        except (ConnectionError, asyncio.IncompleteReadError):
            pass
        finally:
            await ch.close()

    task = loop.create_task(remote_main(), name=f"mem remote {sim_name}")
    sim._mem_task = task
    ch_m = Channel(r_m, w_m, name=sim_name)
    if ctx is not None:
        ctx.remote_tasks.append(task)
        ctx.channels.append((sim, (r_m, w_m), (r_s, w_s), ch_m))
    return RemoteProxy(ch_m, mosaik_remote)


def install():
    from mosaik.simmanager import StarterCollection
    StarterCollection()["mem"] = start_mem
