"""In-memory *remote* transport.

Registered through mosaik's documented extension point
``StarterCollection()['mem']``.  The complete real remote path is executed
(JSON framing, ``Channel``, ``RemoteProxy``, ``mosaik_api_v3.run_simulator``,
``RemoteMosaikProxy``), but the two directions are ``asyncio.StreamReader``s fed
by small writer objects instead of sockets, so it runs on the virtual loop,
deterministically and explorable.
"""
from __future__ import annotations

import asyncio
import importlib

import mosaik_api_v3
from mosaik_api_v3.connection import Channel

from . import stubs


class MemWriter:
    """Writer half of an in-memory duplex pipe.  ``close`` signals EOF to both
    directions, as a real transport's ``connection_lost`` does."""

    def __init__(self, own_reader, peer_reader, name):
        self.own = own_reader
        self.peer = peer_reader
        self.name = name
        self.closed = False
        self.twin = None

    def write(self, data):
        if self.closed:
            return
        if self.peer.at_eof() or getattr(self.peer, "_eof", False):
            return
        self.peer.feed_data(data)

    async def drain(self):
        if self.closed:
            raise ConnectionResetError("Connection lost")

    def close(self):
        if not self.closed:
            self.closed = True
            for r in (self.peer, self.own):
                if not getattr(r, "_eof", False):
                    r.feed_eof()
            if self.twin is not None:
                self.twin.closed = True

    def is_closing(self):
        return self.closed

    async def wait_closed(self):
        pass


def make_pipe(loop, name):
    r_m = asyncio.StreamReader(loop=loop)   # mosaik reads here
    r_s = asyncio.StreamReader(loop=loop)   # simulator reads here
    w_m = MemWriter(r_m, r_s, name + ":m")  # mosaik writes into r_s
    w_s = MemWriter(r_s, r_m, name + ":s")  # simulator writes into r_m
    w_m.twin, w_s.twin = w_s, w_m
    return (r_m, w_m), (r_s, w_s)


async def start_mem(mosaik_config, sim_name, sim_config, mosaik_remote):
    from mosaik.proxies import RemoteProxy
    ctx = stubs.CTX
    loop = asyncio.get_running_loop()
    mod_name, cls_name = sim_config["mem"].split(":")
    cls = getattr(importlib.import_module(mod_name), cls_name)
    sim = cls()
    (r_m, w_m), (r_s, w_s) = make_pipe(loop, sim_name)
    api_compliant = mosaik_api_v3.check_api_compliance(sim) if not getattr(
        sim, "quiet_compliance", False) else sim.api_compliant

    async def remote_main():
        ch = Channel(r_s, w_s)
        sim._mem_channel = ch
        try:
            await mosaik_api_v3.run_simulator(ch, sim, api_compliant=api_compliant)
        except (ConnectionError, asyncio.IncompleteReadError):
            pass
        finally:
            await ch.close()

    task = loop.create_task(remote_main(), name=f"mem remote {sim_name}")
    ch_m = Channel(r_m, w_m, name=sim_name)
    if ctx is not None:
        ctx.remote_tasks.append(task)
        ctx.channels.append((sim, (r_m, w_m), (r_s, w_s), ch_m))
    return RemoteProxy(ch_m, mosaik_remote)


def install():
    from mosaik.simmanager import StarterCollection
    StarterCollection()["mem"] = start_mem
