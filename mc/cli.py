"""./check <Cxx> [--tier quick|thorough] [--replay FILE]"""
from __future__ import annotations

import argparse
import os
import sys


def main(argv=None):
    ap = argparse.ArgumentParser(prog="check")
    ap.add_argument("prop")
    ap.add_argument("--tier", choices=["quick", "thorough"],
                    default=os.environ.get("VERIF_TIER") if os.environ.get("VERIF_TIER") in
                    ("quick", "thorough") else "quick")
    ap.add_argument("--replay")
    a = ap.parse_args(argv)
    from . import env  # noqa: F401
    if a.replay:
        from . import replay
        return replay.main(a.prop, a.replay)
    prop = a.prop.upper()
    from . import sched
    if prop in sched.SCHED_PROPS:
        return sched.check(prop, a.tier)
    mod = {"C06": "enum_c06", "C08": "enum_c08", "C11": "enum_c11", "C12": "enum_c12",
           "C13": "faults", "C14": "faults", "C15": "enum_c15", "C17": "rt", "C18": "enum_c18"}.get(prop)
    if mod is None:
        print(f"unknown property {prop}", file=sys.stderr)
        return 2
    import importlib
    m = importlib.import_module(f"mc.{mod}")
    return m.check(prop, a.tier)


if __name__ == "__main__":
    sys.exit(main())
