"""F27 on the real asyncio loop: an in-process simulator calls sys.exit() in step().
Expected output on the unchanged tree: raised SystemExit 3 / finalized ['A'] loop closed False"""
import os
import sys
sys.path.insert(0, os.environ.get("VERIF_REPO", "/repo"))
import mosaik, mosaik_api_v3
from loguru import logger
logger.remove()
sys.modules['demo'] = sys.modules[__name__]
FIN = []
class S(mosaik_api_v3.Simulator):
    def __init__(self):
        super().__init__({'api_version':'3.0','type':'time-based','models':{'M':{'public':True,'params':[],'attrs':['x']}}})
    def init(self, sid, time_resolution=1.0, bad=False):
        self.sid=sid; self.bad=bad; return self.meta
    def create(self, num, model): return [{'eid':'e','type':model}]
    def step(self, t, inputs, max_advance):
        if self.bad and t == 1: sys.exit(3)
        return t+1
    def get_data(self, outputs): return {'e':{'x':1}}
    def finalize(self): FIN.append(self.sid)
w = mosaik.World({'S':{'python':'demo:S'}}, skip_greetings=True)
a = w.start('S', sim_id='A').M(); b = w.start('S', sim_id='B', bad=True).M(); c = w.start('S', sim_id='C').M()
try:
    w.run(until=3, print_progress=False)
    print("returned")
except BaseException as e:
    print("raised", type(e).__name__, e)
print("finalized", FIN, "loop closed", w.loop.is_closed())
