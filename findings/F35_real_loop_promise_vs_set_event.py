"""
Unchanged tree, real-time mode: max_advance ignores that an ancestor with
`set_events` can get new steps at any (real) time.

  Ext (event-based, 'set_events': True) --(out -> in)--> Recv (event-based)

Ext steps at 0 (initial event) and emits.  Recv is stepped at 0 and is told
max_advance = until, because Ext has nothing queued at that moment.  0.25 s
later an "external event" arrives at Ext (a background task calls
mosaik.set_event(3), the documented way for external events in rt mode);
Ext steps at 3, emits, and Recv - which never schedules itself and has no
outputs - is stepped at 3, inside (0, until].

exit 1: promise broken, exit 0: kept.
"""
import asyncio
import sys

import mosaik
import mosaik_api_v3

print("mosaik from", mosaik.__file__)

UNTIL = 8
RT_FACTOR = 0.1    # 0.1 s per time unit
LOG = {}


class Ext(mosaik_api_v3.Simulator):
    def __init__(self):
        super().__init__({
            "api_version": "3.0",
            "type": "event-based",
            "set_events": True,
            "models": {"E": {"public": True, "params": [], "attrs": ["out"]}},
        })
        self.bg = None

    def init(self, sid, time_resolution=1.0):
        self.sid = sid
        LOG[sid] = []
        return self.meta

    def create(self, num, model, **kw):
        return [{"eid": "e%d" % i, "type": model} for i in range(num)]

    async def _external_event(self):
        await asyncio.sleep(0.25)          # -> between sim time 2 and 3
        await self.mosaik.set_event(3)

    def step(self, time, inputs, max_advance):
        LOG[self.sid].append((time, max_advance))
        self.now = time
        if time == 0:
            self.bg = asyncio.get_event_loop().create_task(self._external_event())
        return None

    def get_data(self, outputs):
        return {eid: {a: self.now for a in attrs} for eid, attrs in outputs.items()}


class Receiver(mosaik_api_v3.Simulator):
    def __init__(self):
        super().__init__({
            "api_version": "3.0",
            "type": "event-based",
            "models": {"Node": {"public": True, "params": [], "attrs": ["in"]}},
        })

    def init(self, sid, time_resolution=1.0):
        self.sid = sid
        LOG[sid] = []
        return self.meta

    def create(self, num, model, **kw):
        return [{"eid": "n%d" % i, "type": model} for i in range(num)]

    def step(self, time, inputs, max_advance):
        LOG[self.sid].append((time, max_advance))
        return None

    def get_data(self, outputs):
        return {}


def main():
    world = mosaik.World({"Ext": {"python": "__main__:Ext"},
                          "Receiver": {"python": "__main__:Receiver"}})
    ext = world.start("Ext", sim_id="Ext").E()
    recv = world.start("Receiver", sim_id="Recv").Node()
    world.connect(ext, recv, ("out", "in"))
    world.set_initial_event("Ext", 0)
    world.run(until=UNTIL, rt_factor=RT_FACTOR, print_progress=False)

    for sid in ("Ext", "Recv"):
        print(sid, "steps (time, max_advance):", LOG[sid])
    bad = 0
    steps = LOG["Recv"]
    for i, (t, m) in enumerate(steps):
        for t2, _ in steps[i + 1:]:
            if t < t2 <= m:
                print("VIOLATION: Recv was promised max_advance=%d at t=%d but is "
                      "stepped again at t=%d" % (m, t, t2))
                bad += 1
    print("violations:", bad)
    return 1 if bad else 0


if __name__ == "__main__":
    sys.exit(main())
