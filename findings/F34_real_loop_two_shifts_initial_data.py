"""
UNCHANGED tree: two time-shifted connections from the same source simulator
with different shifts and different attributes:
    S.x -> B.inp  time_shifted=1, initial_data {'x': 'ix'}
    S.y -> C.inp  time_shifted=3, initial_data {'y': 'iy'}
The initial data are stored in S's output cache at times -1 (only 'x') and
-3 (only 'y'). At t=2, C asks for the newest entry at or before -1 and gets
the entry that only holds 'x' -> mosaik logs a warning and supplies None
instead of the declared initial data 'iy'.  (If both connections use the
same attribute, C gets B's initial data at t=2 instead of its own.)

Property clause: "the declared initial data until such a value exists" /
"No value is ... invented".
exit 1 = violated, 0 = holds.
"""
import copy, sys
import mosaik, mosaik_api_v3

print("mosaik from", mosaik.__file__)
LOG = []


class Src(mosaik_api_v3.Simulator):
    META = {'api_version': '3.0', 'type': 'time-based', 'models': {'S': {
        'public': True, 'params': [], 'attrs': ['x', 'y']}}}
    def __init__(self): super().__init__(copy.deepcopy(self.META))
    def init(self, sid, time_resolution=1., **kw): return self.meta
    def create(self, num, model, **kw): return [{'eid': 's0', 'type': model}]
    def step(self, time, inputs, max_advance):
        self.t = time
        return time + 1
    def get_data(self, outputs):
        return {'s0': {'x': 'x%d' % self.t, 'y': 'y%d' % self.t}}


class Dst(mosaik_api_v3.Simulator):
    META = {'api_version': '3.0', 'type': 'time-based', 'models': {'D': {
        'public': True, 'params': [], 'attrs': ['inp']}}}
    def __init__(self): super().__init__(copy.deepcopy(self.META))
    def init(self, sid, time_resolution=1., **kw):
        self.sid = sid
        return self.meta
    def create(self, num, model, **kw): return [{'eid': 'd0', 'type': model}]
    def step(self, time, inputs, max_advance):
        LOG.append((self.sid, time, copy.deepcopy(inputs)))
        return time + 1
    def get_data(self, outputs): return {}


def main():
    w = mosaik.World({'Src': {'python': '__main__:Src'}, 'Dst': {'python': '__main__:Dst'}},
                     skip_greetings=True)
    s = w.start('Src', sim_id='S').S()
    b = w.start('Dst', sim_id='B').D()
    c = w.start('Dst', sim_id='C').D()
    w.connect(s, b, ('x', 'inp'), time_shifted=1, initial_data={'x': 'ix'})
    w.connect(s, c, ('y', 'inp'), time_shifted=3, initial_data={'y': 'iy'})
    w.run(until=6, print_progress=False)
    bad = 0
    for sid, t, inputs in sorted(LOG):
        got = inputs.get('d0', {}).get('inp', {})
        shift, attr, init = (1, 'x', 'ix') if sid == 'B' else (3, 'y', 'iy')
        exp = {'S.s0': '%s%d' % (attr, t - shift) if t >= shift else init}
        ok = got == exp
        bad += not ok
        print(f"{sid} t={t} got={got} {'ok' if ok else 'EXPECTED ' + str(exp)}")
    print("VIOLATION" if bad else "property holds")
    return 1 if bad else 0


if __name__ == '__main__':
    sys.exit(main())
