"""F18/F19 with real processes and sockets:  python run.py <idle_after_create|setup_done|step|get_data|async_outstanding>

Before the repairs: 'idle_after_create' made run() hang (F19) and, once interrupted,
shutdown() raised ConnectionResetError/BrokenPipeError and left the loop open (F18).
Exit status: 0 = run() ended promptly with an error and the loop is closed."""
import os
import signal
import sys
import time

sys.path.insert(0, os.environ.get("VERIF_REPO", "/repo"))
import mosaik  # noqa: E402
from loguru import logger  # noqa: E402

logger.remove()
HERE = os.path.dirname(os.path.abspath(__file__))
die = sys.argv[1]
state = {"hang": False}


def alarm(*a):
    state["hang"] = True
    raise KeyboardInterrupt()


signal.signal(signal.SIGALRM, alarm)
signal.alarm(30)
FINALIZED = []
if die == "async_outstanding":
    # F25: Dep (in-process, slow get_data) --async_requests--> A (sub-process, dies while its
    # get_data request to mosaik is outstanding); Obs is started last and must be finalized
    import asyncio
    import mosaik_api_v3

    class Dep(mosaik_api_v3.Simulator):
        def __init__(self):
            super().__init__({"type": "time-based", "models": {
                "M": {"public": True, "params": [], "attrs": ["a", "b"]}}})

        def init(self, sid, time_resolution=1.0, **kw):
            self.sid = sid
            return self.meta

        def create(self, num, model):
            return [{"eid": "e", "type": model}]

        def step(self, t, inputs, max_advance):
            return t + 1

        def get_data(self, outputs):
            if "b" in outputs.get("e", []):
                yield asyncio.sleep(0.3)
            return {"e": {k: 1 for k in outputs.get("e", [])}}

        def finalize(self):
            FINALIZED.append(self.sid)

    sys.modules["realproc_run"] = sys.modules[__name__]
    w = mosaik.World({"S": {"cmd": f"%(python)s {HERE}/dying_sim.py %(addr)s"},
                      "L": {"python": "realproc_run:Dep"}}, skip_greetings=True)
    dep = w.start("L", sim_id="Dep").M()
    a = w.start("S", sim_id="A", die=die).M()
    obs = w.start("L", sim_id="Obs").M()
    w.connect(dep, a, "a", async_requests=True)
else:
    w = mosaik.World({"S": {"cmd": f"%(python)s {HERE}/dying_sim.py %(addr)s"}}, skip_greetings=True)
    a = w.start("S", sim_id="A", die=die).M()
    b = w.start("S", sim_id="B").M()
    w.connect(a, b, "a")
time.sleep(0.3)
t0 = time.time()
err = None
try:
    w.run(until=3, print_progress=False)
except BaseException as e:  # noqa: BLE001
    err = e
print(f"run() -> {type(err).__name__ if err else 'returned'}: {str(err)[:90] if err else ''}; "
      f"{time.time() - t0:.2f}s; hang={state['hang']}; loop closed={w.loop.is_closed()}")
if die == "async_outstanding":
    print(f"finalized: {FINALIZED}")
    if "Obs" not in FINALIZED:
        sys.exit(1)
sys.exit(0 if (err is not None and not state["hang"] and w.loop.is_closed()) else 1)
