"""F18/F19 with real processes and sockets:  python run.py <idle_after_create|setup_done|step|get_data>

Before the repairs: 'idle_after_create' made run() hang (F19) and, once interrupted,
shutdown() raised ConnectionResetError/BrokenPipeError and left the loop open (F18).
Exit status: 0 = run() ended promptly with an error and the loop is closed."""
import os
import signal
import sys
import time

sys.path.insert(0, os.environ.get("VERIF_REPO", "/repo"))
import mosaik  # noqa: E402
from loguru import logger  # noqa: E402

logger.remove()
HERE = os.path.dirname(os.path.abspath(__file__))
die = sys.argv[1]
state = {"hang": False}


def alarm(*a):
    state["hang"] = True
    raise KeyboardInterrupt()


signal.signal(signal.SIGALRM, alarm)
signal.alarm(30)
w = mosaik.World({"S": {"cmd": f"%(python)s {HERE}/dying_sim.py %(addr)s"}}, skip_greetings=True)
a = w.start("S", sim_id="A", die=die).M()
b = w.start("S", sim_id="B").M()
w.connect(a, b, "a")
time.sleep(0.3)
t0 = time.time()
err = None
try:
    w.run(until=3, print_progress=False)
except BaseException as e:  # noqa: BLE001
    err = e
print(f"run() -> {type(err).__name__ if err else 'returned'}: {str(err)[:90] if err else ''}; "
      f"{time.time() - t0:.2f}s; hang={state['hang']}; loop closed={w.loop.is_closed()}")
sys.exit(0 if (err is not None and not state["hang"] and w.loop.is_closed()) else 1)
