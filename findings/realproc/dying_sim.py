"""A real remote simulator (sub-process, real sockets) that exits at a chosen point."""
import os
import sys
import threading
import mosaik_api_v3


class S(mosaik_api_v3.Simulator):
    def __init__(self):
        super().__init__({"type": "time-based",
                          "models": {"M": {"public": True, "params": [], "attrs": ["a"]}}})

    def init(self, sid, time_resolution=1.0, die=None):
        self.die = die
        return self.meta

    def create(self, num, model):
        if self.die == "idle_after_create":     # dies while no request is outstanding
            threading.Timer(0.05, lambda: os._exit(1)).start()
        return [{"eid": "e", "type": model}]

    def setup_done(self):
        if self.die == "setup_done":
            os._exit(1)

    def step(self, t, inputs, max_advance):
        if self.die == "step":
            os._exit(1)
        if self.die == "async_outstanding":
            # dies while a request of its own to mosaik is being processed (the queried
            # simulator takes 0.3 s to answer)
            threading.Timer(0.1, lambda: os._exit(1)).start()
            yield self.mosaik.get_data({"Dep.e": ["b"]})
        return t + 1

    def get_data(self, outputs):
        if self.die == "get_data":
            os._exit(1)
        return {"e": {"a": 1}}


if __name__ == "__main__":
    mosaik_api_v3.start_simulation(S())
