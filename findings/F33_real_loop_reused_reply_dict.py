"""
UNCHANGED tree, finding 1: lazy_stepping on/off changes what a consumer observes
when an in-process producer returns the *same dict object* from get_data() in
every step (a very common pattern: `return self.data`).  scheduler.get_outputs
stores the returned dict in the output cache by reference (sim.outputs[t] = data),
so with lazy_stepping=False (producer runs ahead) every cache entry is the newest
data.  With cache=False, with lazy_stepping=True or with a remote simulator the
consumer sees the right values.  Exit 1 if the runs differ.
"""
import copy, json, sys, asyncio
import mosaik, mosaik_api_v3
from loguru import logger
logger.remove()
TRACES = {}

class Sim(mosaik_api_v3.Simulator):
    def __init__(self):
        super().__init__({"type": "time-based", "models": {}})
    def init(self, sid, time_resolution=1.0, kind="time-based", step_size=1,
             ins=(), outs=(), trigger=None, non_persistent=None, emit=None,
             sleep=0.0, reuse=False, out_time=None):
        self.sid = sid; self.kind = kind; self.step_size = step_size
        self.meta["type"] = kind
        model = {"public": True, "params": [], "attrs": list(ins) + list(outs)}
        if trigger is not None: model["trigger"] = list(trigger)
        if non_persistent is not None: model["non-persistent"] = list(non_persistent)
        self.meta["models"]["M"] = model
        self.time = None; self.emit = emit; self.sleep = sleep; self.reuse = reuse
        self.buf = {}
        self.out_time = out_time or {}
        TRACES[sid] = []
        return self.meta
    def create(self, num, model):
        return [{"eid": "e%d" % i, "type": model} for i in range(num)]
    def step(self, time, inputs, max_advance):
        if self.sleep:
            yield asyncio.sleep(self.sleep)
        self.time = time
        TRACES[self.sid].append((time, json.loads(json.dumps(inputs))))
        if self.kind == "time-based":
            return time + self.step_size
        return None
    def get_data(self, outputs):
        d = self.buf if self.reuse else {}
        for eid, attrs in outputs.items():
            for a in attrs:
                if self.emit is None or self.time in self.emit:
                    d.setdefault(eid, {})[a] = "%s@%d" % (self.sid, self.time)
        if str(self.time) in self.out_time:
            d["time"] = self.out_time[str(self.time)]
        return d

def run(lazy, cache):
    TRACES.clear()
    w = mosaik.World({"S": {"python": "__main__:Sim"}}, cache=cache, skip_greetings=True)
    a = w.start("S", sim_id="A", outs=["v"], reuse=True).M()
    b = w.start("S", sim_id="B", ins=["x"]).M()
    w.connect(a, b, ("v", "x"))
    w.run(until=4, print_progress=False, lazy_stepping=lazy)
    return [(t, i["e0"]["x"]["A.e0"]) for t, i in TRACES["B"]]

if __name__ == "__main__":
    print("mosaik from", mosaik.__file__)
    res = {}
    for lazy in (True, False):
        for cache in (True, False):
            res[lazy, cache] = run(lazy, cache)
            print("lazy=%s cache=%s: B saw %s" % (lazy, cache, res[lazy, cache]))
    ok = len({json.dumps(v) for v in res.values()}) == 1
    print("property holds" if ok else "PROPERTY VIOLATED")
    sys.exit(0 if ok else 1)
