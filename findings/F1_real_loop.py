"""F1 on the real asyncio loop (no virtual loop, no explorer).

Event-based C triggers event-based D; X is an unconnected time-based simulator.
C answers slowly (asyncio.sleep).  While C's step is in flight X finishes a step and
recomputes everybody's progress; D's progress jumps to `until`, D's process ends, and
when C's output finally schedules D the run dies with "cannot progress backwards"
(or D's step is lost).  Exit status 1 = defect present.
"""
import asyncio, sys
import mosaik, mosaik_api_v3

class Sim(mosaik_api_v3.Simulator):
    def __init__(self):
        super().__init__({"models": {}})
    def init(self, sid, time_resolution=1.0, kind="C"):
        self.sid, self.kind = sid, kind
        self.meta["type"] = "time-based" if kind == "X" else "event-based"
        attrs = ["a"] if kind != "X" else []
        self.meta["models"] = {"M": {"public": True, "params": [], "attrs": attrs}}
        self.steps = []
        return self.meta
    def create(self, num, model):
        return [{"eid": "e", "type": model}]
    def step(self, time, inputs, max_advance):
        self.steps.append(time)
        # simulators that take a while to answer, as remote ones do
        yield asyncio.sleep({"C": 0.05, "X": 0.01}.get(self.kind, 0))
        return time + 1 if self.kind == "X" else None
    def get_data(self, outputs):
        return {"e": {"a": 1}}

def main():
    w = mosaik.World({"S": {"python": f"{__name__}:Sim"}}, skip_greetings=True)
    from loguru import logger; logger.remove()
    c = w.start("S", sim_id="C", kind="C").M()
    d = w.start("S", sim_id="D", kind="D").M()
    w.start("S", sim_id="X", kind="X").M()
    w.connect(c, d, "a")
    w.set_initial_event("C", 0)
    try:
        w.run(until=2, print_progress=False)
    except AssertionError as e:
        print("DEFECT: run() failed with AssertionError:", e)
        return 1
    dsim = w.sims["D"]._proxy.sim
    if dsim.steps != [0]:
        print("DEFECT: D was triggered at 0 but its steps are", dsim.steps)
        return 1
    print("ok: D stepped at", dsim.steps)
    return 0

if __name__ == "__main__":
    sys.modules.setdefault("F1_real_loop", sys.modules[__name__])
    sys.exit(main())
