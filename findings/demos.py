"""Stand-alone demonstrations of the findings against the real code (real asyncio
loop, ordinary in-process simulators, no explorer).

    /venv/bin/python findings/demos.py [F2 F3 ...]      (default: all)

Each demo prints DEFECT/ok; exit status = number of demos that show a defect.
"""
import asyncio
import signal
import sys
import warnings

sys.path.insert(0, "/repo")
import mosaik  # noqa: E402
import mosaik_api_v3  # noqa: E402
from loguru import logger  # noqa: E402

logger.remove()
warnings.simplefilter("ignore")


class Gen(mosaik_api_v3.Simulator):
    """Generic scripted simulator: behaviour tables indexed by the step counter."""

    def __init__(self):
        super().__init__({"models": {}})

    def init(self, sid, time_resolution=1.0, type="time-based", attrs=("a",), trigger=None,
             nonpersistent=None, step=1, nxt=None, out=None, sleep=None):
        self.sid, self.stepsize, self.nxt, self.out, self.sleep = sid, step, nxt, out, sleep
        self.meta["type"] = type
        m = {"public": True, "params": [], "attrs": list(attrs)}
        if trigger is not None:
            m["trigger"] = list(trigger)
        if nonpersistent is not None:
            m["non-persistent"] = list(nonpersistent)
        self.meta["models"] = {"M": m}
        self.log = []
        self.k = 0
        return self.meta

    def create(self, num, model):
        return [{"eid": "e", "type": model}]

    def step(self, time, inputs, max_advance):
        k = self.k
        self.k += 1
        self.t = time
        self.cur = k
        self.log.append((time, inputs and {a: dict(v) for a, v in inputs.get("e", {}).items()}, max_advance))
        if self.sleep:
            yield asyncio.sleep(self.sleep)
        if self.nxt is not None:
            d = self.nxt[k] if k < len(self.nxt) else None
            return None if d is None else time + d
        return time + self.stepsize

    def get_data(self, outputs):
        k = self.cur
        if self.out is None:
            return {"e": {a: f"{self.sid}{k}" for a in outputs.get("e", [])}}
        d = self.out[k] if k < len(self.out) else None
        if d is None:
            return {}
        return {"time": self.t + d, "e": {a: f"{self.sid}{k}" for a in outputs.get("e", [])}}


CFG = {"G": {"python": "demos:Gen"}}


def world(**kw):
    return mosaik.World(CFG, skip_greetings=True, **kw)


def log_of(w, sid):
    return w.sims[sid]._proxy.sim.log


class Timeout(Exception):
    pass


def with_alarm(seconds, fn):
    def h(*a):
        raise Timeout()
    signal.signal(signal.SIGALRM, h)
    signal.alarm(seconds)
    try:
        return fn()
    finally:
        signal.alarm(0)


# ---------------------------------------------------------------------------------------
def F2():
    from mosaik.tiered_time import TieredInterval as I
    a, b = I(2, 0), I(1, 5)
    if (a < b) and (b < a):
        print("F2 DEFECT: both 2:0 < 1:5 and 1:5 < 2:0 hold")
        return 1
    print("F2 ok")
    return 0


def F3():
    w = world()
    with w.group():
        a = w.start("G", sim_id="A", type="event-based").M()
    with w.group():
        b = w.start("G", sim_id="B", type="event-based").M()
    try:
        w.connect(a, b, "a", weak=True)
    except mosaik.exceptions.ScenarioError:
        print("F3 ok: weak connection between sibling groups rejected")
        return 0
    finally:
        w.shutdown()
    print("F3 DEFECT: weak connection between simulators of two different (sibling) groups accepted")
    return 1


def F4():
    w = world(cache=True)
    a = w.start("G", sim_id="A", step=4).M()
    b = w.start("G", sim_id="B", step=1).M()
    w.connect(a, b, "a", time_shifted=2, initial_data={"a": "init"})
    w.run(until=7, print_progress=False)
    seen = [(t, i.get("a", {}).get("A.e")) for t, i, _ in log_of(w, "B")]
    want = [(0, "init"), (1, "init"), (2, "A0"), (3, "A0"), (4, "A0"), (5, "A0"), (6, "A1")]
    if seen != want:
        print("F4 DEFECT: time_shifted=2, cache=True: B saw", seen)
        return 1
    print("F4 ok")
    return 0


def F5():
    w = world(cache=False)
    a = w.start("G", sim_id="A").M()
    q = w.start("G", sim_id="Q", type="event-based", nxt=[None], out=[0]).M()
    b = w.start("G", sim_id="B", type="hybrid", attrs=("m", "t", "a"), trigger=("t",),
                nxt=[1, 1, 1]).M()
    w.connect(a, b, ("a", "m"))
    w.connect(q, b, ("a", "t"))
    w.set_initial_event("Q", 0)
    w.run(until=3, print_progress=False)
    seen = [(t, i.get("t")) for t, i, _ in log_of(w, "B")]
    if any(v for t, v in seen if t > 0):
        print("F5 DEFECT: cache=False: the event Q0 (produced once, at 0) is delivered again:", seen)
        return 1
    print("F5 ok")
    return 0


def F9():
    w = world()
    w.start("G", sim_id="TB", nxt=[1, None]).M()
    try:
        w.run(until=5, print_progress=False)
    except AssertionError as e:
        print("F9 DEFECT: bare AssertionError that does not name the simulator:", e)
        return 1
    except Exception as e:  # noqa: BLE001
        if "TB" in str(e):
            print("F9 ok:", type(e).__name__, e)
            return 0
        print("F9 DEFECT: error does not name the simulator:", repr(e))
        return 1
    print("F9 DEFECT: accepted silently")
    return 1


def F11():
    w = world()
    w.start("G", sim_id="A").M()
    w.start("G", sim_id="B").M()
    try:
        w.run(until=2, rt_factor=0.01, print_progress=False)
    except AttributeError as e:
        print("F11 DEFECT: real-time run with two simulators:", e)
        return 1
    print("F11 ok")
    return 0


def F13():
    from mosaik import util

    class W:
        def connect(self, *a, **k):
            pass
    try:
        util.connect_randomly(W(), ["s1", "s2"], ["d"], "a", evenly=False, max_connects=2)
    except AssertionError:
        print("F13 DEFECT: connect_randomly(2 sources, 1 destination, max_connects=2) raises AssertionError")
        return 1
    print("F13 ok")
    return 0


def F15():
    w = world(cache=True)
    with w.group():
        a = w.start("G", sim_id="A").M()
        b = w.start("G", sim_id="B", attrs=("a", "m1", "m2")).M()
    w.connect(a, b, ("a", "m1"), weak=True, initial_data={"a": "init_w"})
    w.connect(a, b, ("a", "m2"), time_shifted=True, initial_data={"a": "init_s"})
    w.run(until=3, print_progress=False)
    seen = [(t, i.get("m2", {}).get("A.e")) for t, i, _ in log_of(w, "B")]
    if seen[1][1] != "A0":
        print("F15 DEFECT: time-shifted input at t=1 should be A0 (A's output of step 0):", seen)
        return 1
    print("F15 ok")
    return 0


def F16():
    def run():
        w = world()
        a = w.start("G", sim_id="A", type="event-based", nxt=[1, 1, None], out=[5, 3, 2]).M()
        b = w.start("G", sim_id="B", type="event-based").M()
        w.connect(a, b, "a")
        w.set_initial_event("A", 0)
        w.run(until=3, print_progress=False)
    try:
        with_alarm(5, run)
    except Timeout:
        print("F16 DEFECT: run() hangs (events announced for times after the end)")
        return 1
    print("F16 ok")
    return 0


def F17():
    def mk(debug):
        w = world(debug=debug)
        with w.group():
            a = w.start("G", sim_id="A").M()
            b = w.start("G", sim_id="B").M()
        w.connect(a, b, "a", async_requests=True)
        w.run(until=2, print_progress=False)
    mk(False)
    try:
        mk(True)
    except AssertionError as e:
        print("F17 DEFECT: debug=True aborts where debug=False completes:", repr(e)[:80])
        return 1
    print("F17 ok")
    return 0


ALL = [F2, F3, F4, F5, F9, F11, F13, F15, F16, F17]

if __name__ == "__main__":
    sys.modules.setdefault("demos", sys.modules[__name__])
    sel = sys.argv[1:]
    n = 0
    for f in ALL:
        if not sel or f.__name__ in sel:
            try:
                n += f()
            except Exception as e:  # noqa: BLE001
                print(f.__name__, "DEFECT (unexpected exception):", repr(e)[:200])
                n += 1
    sys.exit(n)
