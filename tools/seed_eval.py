#!/venv/bin/python
"""Confirm a seeded change and run checks against it.

  tools/seed_eval.py /tmp/seed_C06/1 C06 [more props ...] [--keep-as NAME] [--tier quick]

Steps (all in a scratch worktree of /repo's HEAD under /tmp, removed afterwards):
  1. git apply patch.diff
  2. repository test suite (inside `unshare -n`: several tests bind fixed ports)
  3. demo.py exits 1 on the changed tree and 0 on /repo
  4. ./check <prop> with VERIF_REPO=<scratch tree>  (expects exit 1 + VIOLATION)
With --keep-as the seed is stored as /verif/seeded/<NAME>/ (patch.diff, demo.py, notes.md, meta.json).
"""
import argparse, json, os, shutil, subprocess, sys, tempfile, time

def snapshot():
    """a private copy of the machinery, so that edits in /verif during a long evaluation cannot
    change the checks half-way, and the evaluation does not overwrite /verif/evidence"""
    snap = tempfile.mkdtemp(prefix='vs.', dir='/tmp')
    for n in ('mc', 'check', 'known_findings.json', 'findings', 'properties.jsonl', 'selftest'):
        src = os.path.join('/verif', n)
        (shutil.copytree if os.path.isdir(src) else shutil.copy)(src, os.path.join(snap, n))
    return snap

def sh(cmd, **kw):
    return subprocess.run(cmd, capture_output=True, text=True, **kw)

SNAP = None

def main():
    global SNAP
    SNAP = snapshot()
    ap = argparse.ArgumentParser()
    ap.add_argument('seed'); ap.add_argument('props', nargs='+')
    ap.add_argument('--keep-as'); ap.add_argument('--tier', default='quick'); ap.add_argument('--no-tests', action='store_true')
    a = ap.parse_args()
    seed = os.path.abspath(a.seed)
    d = tempfile.mkdtemp(prefix='ev.', dir='/tmp'); os.rmdir(d)
    r = sh(['git', '-C', '/repo', 'worktree', 'add', '-q', '--detach', d, 'HEAD'])
    if r.returncode: print(r.stderr); return 3
    meta = dict(seed=seed, repo_head=sh(['git','-C','/repo','rev-parse','--short','HEAD']).stdout.strip())
    try:
        r = sh(['git', '-C', d, 'apply', os.path.join(seed, 'patch.diff')])
        if r.returncode:
            r = sh(['git', '-C', d, 'apply', '-3', os.path.join(seed, 'patch.diff')])
        meta['applies'] = r.returncode == 0
        if r.returncode:
            print('PATCH DOES NOT APPLY:', r.stderr[:300]); return 3
        meta['diffstat'] = sh(['git', '-C', d, 'diff', '--stat']).stdout.strip().splitlines()[-1:]
        if not a.no_tests:
            t0 = time.time()
            t = sh(['unshare', '-n', 'sh', '-c', 'ip link set lo up 2>/dev/null; cd %s && /venv/bin/python -m pytest -q -p no:cacheprovider --timeout=900 -q 2>&1 | tail -3' % d])
            meta['tests'] = t.stdout.strip().splitlines()[-1] if t.stdout.strip() else 'no output'
            print('TESTS:', meta['tests'], f'({time.time()-t0:.0f}s)')
        env = dict(os.environ, MOSAIK_TREE=d, PYTHONPATH=d)
        r1 = sh(['/venv/bin/python', os.path.join(seed, 'demo.py')], env=env, timeout=180)
        env0 = dict(os.environ, MOSAIK_TREE='/repo', PYTHONPATH='/repo')
        r0 = sh(['/venv/bin/python', os.path.join(seed, 'demo.py')], env=env0, timeout=180)
        meta['demo_changed_exit'] = r1.returncode; meta['demo_unchanged_exit'] = r0.returncode
        print(f'DEMO: changed tree exit={r1.returncode}, unchanged exit={r0.returncode}')
        if r1.returncode != 1 or r0.returncode != 0:
            print('   changed:', (r1.stdout + r1.stderr)[-300:]); print('   unchanged:', (r0.stdout + r0.stderr)[-300:])
        meta['checks'] = {}
        for p in a.props:
            env = dict(os.environ, VERIF_REPO=d)
            t0 = time.time()
            r = sh([os.path.join(SNAP, 'check'), p, '--tier', a.tier], env=env)
            lines = r.stdout.strip().splitlines()
            viol = [l for l in lines if l.startswith('VIOLATION')]
            kinds = sorted({l.strip().split(' cls=')[0] for l in lines if l.strip().startswith('kind=')})
            meta['checks'][p] = dict(exit=r.returncode, violations=len(viol), kinds=kinds, first=(lines[lines.index(viol[0]) + 1].strip()[:300] if viol and lines.index(viol[0]) + 1 < len(lines) else None), wall=round(time.time() - t0, 1))
            print(f'CHECK {p}: exit={r.returncode} violations={len(viol)} {kinds[:4]} ({time.time()-t0:.0f}s)')
            if viol: print('    ', meta['checks'][p]['first'])
            if r.returncode not in (0, 1): print(r.stderr[-800:])
        if a.keep_as:
            dst = os.path.join('/verif/seeded', a.keep_as); os.makedirs(dst, exist_ok=True)
            if 'tests' not in meta and os.path.exists(os.path.join(dst, 'meta.json')):
                old = json.load(open(os.path.join(dst, 'meta.json')))
                if 'tests' in old: meta['tests'] = old['tests']; meta['tests_note'] = 'suite run in an earlier evaluation of the same patch'
                for p, ck in old.get('checks', {}).items():
                    meta['checks'].setdefault(p + ' (earlier evaluation, before strengthening)', ck) if ck.get('exit') == 0 else None
            for f in ('patch.diff', 'demo.py', 'notes.md'):
                if os.path.exists(os.path.join(seed, f)): shutil.copy(os.path.join(seed, f), dst)
            json.dump(meta, open(os.path.join(dst, 'meta.json'), 'w'), indent=1)
        return 0
    finally:
        sh(['git', '-C', '/repo', 'worktree', 'remove', '--force', d]); shutil.rmtree(d, ignore_errors=True); shutil.rmtree(SNAP, ignore_errors=True)

if __name__ == '__main__':
    sys.exit(main())
