#!/bin/sh
# run every quick (or $1) check, print one line per property
cd /verif
tier=${1:-quick}
for p in C01 C02 C03 C04 C05 C06 C07 C08 C09 C10 C11 C12 C13 C14 C15 C16 C17 C18; do
  s=$(date +%s.%N)
  out=$(./check $p --tier $tier 2>&1); rc=$?
  e=$(date +%s.%N)
  printf "%s rc=%s %.1fs viol=%s known=%s | %s\n" $p $rc $(echo "$e - $s" | bc) "$(echo "$out" | grep -c '^VIOLATION')" "$(echo "$out" | grep -c '^KNOWN-FINDING')" "$(echo "$out" | tail -1 | cut -c1-150)"
done
