#!/venv/bin/python
"""Run checks against a scratch copy of /repo with a change applied.

  tools/mut.py [--tests] (--patch FILE [--reverse] | --sub FILE OLD NEW) -- C05 [C03 ...] [--tier T]

The copy lives under /tmp, is removed afterwards; /repo itself is never touched.
"""
import argparse, os, shutil, subprocess, sys, tempfile

def main():
    argv = sys.argv[1:]
    if '--' in argv:
        i = argv.index('--'); mine, rest = argv[:i], argv[i+1:]
    else:
        mine, rest = argv, []
    ap = argparse.ArgumentParser()
    ap.add_argument('--patch'); ap.add_argument('--reverse', action='store_true')
    ap.add_argument('--sub', nargs=3, action='append', default=[])
    ap.add_argument('--tests', action='store_true')
    ap.add_argument('--keep', action='store_true')
    a = ap.parse_args(mine)
    d = tempfile.mkdtemp(prefix='mut.', dir='/tmp')
    try:
        subprocess.run(['rsync', '-a', '--exclude', '.git', '--exclude', 'docs', '--exclude', '__pycache__', '/repo/', d + '/'], check=True)
        if a.patch:
            cmd = ['patch', '-p1', '-s', '-d', d] + (['-R'] if a.reverse else [])
            r = subprocess.run(cmd, stdin=open(a.patch)); 
            if r.returncode: print('PATCH FAILED'); return 3
        for f, old, new in a.sub:
            p = os.path.join(d, f); s = open(p).read()
            if old not in s: print('PATTERN NOT FOUND in', f); return 3
            open(p, 'w').write(s.replace(old, new, 1))
        if a.tests:
            t = subprocess.run(['/venv/bin/python', '-m', 'pytest', '-q', '-p', 'no:cacheprovider', '--timeout=300', '-x', '-q', '-n', '8'], cwd=d, capture_output=True, text=True)
            if 'unrecognized arguments: -n' in t.stderr + t.stdout:
                t = subprocess.run(['/venv/bin/python', '-m', 'pytest', '-q', '-p', 'no:cacheprovider', '--timeout=300', '-x', '-q'], cwd=d, capture_output=True, text=True)
            last = [l for l in t.stdout.strip().splitlines() if l.strip()][-1:] 
            print('TESTS:', last, 'rc=', t.returncode)
        props, extra = [], []
        for x in rest:
            (props if x.upper().startswith('C') and len(x) <= 4 and x[1:].isdigit() else extra).append(x)
        rc = 0
        for p in props:
            env = dict(os.environ, VERIF_REPO=d)
            r = subprocess.run(['/verif/check', p] + extra, env=env, capture_output=True, text=True)
            lines = r.stdout.strip().splitlines()
            viol = [l for l in lines if l.startswith('VIOLATION')]
            print(f'== {p}: exit={r.returncode} violations={len(viol)}')
            for l in lines[:6]: print('   ', l[:260])
            if len(lines) > 6: print('    ...', lines[-1][:260])
            if r.returncode not in (0, 1): print(r.stderr[-1500:])
            rc = max(rc, r.returncode)
        return rc
    finally:
        if not a.keep: shutil.rmtree(d, ignore_errors=True)
        else: print('kept', d)

if __name__ == '__main__':
    sys.exit(main())
