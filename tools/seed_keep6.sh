#!/bin/sh
# tools/seed_keep6.sh C01 ...  evaluates /tmp/seed7_<P>/<n> with the property's own quick check, keeps as R6-<P>-<n>
for p in "$@"; do for n in 1 2 3; do [ -f /tmp/seed7_$p/$n/patch.diff ] || continue; echo "=== $p/$n"; /verif/tools/seed_eval.py /tmp/seed7_$p/$n $p --keep-as R6-$p-$n 2>&1 | tail -5 | cut -c1-300; done; done
