#!/bin/sh
# round 2: tools/seed_keep2.sh C05 C07 ...   (seeds in /tmp/seed2_<P>/<n>, stored as /verif/seeded/R2-<P>-<n>)
for p in "$@"; do
  for n in 1 2 3; do
    [ -f /tmp/seed2_$p/$n/patch.diff ] || continue
    echo "=== $p/$n"
    /verif/tools/seed_eval.py /tmp/seed2_$p/$n $p --keep-as R2-$p-$n 2>&1 | tail -4 | cut -c1-250
  done
done
