#!/bin/sh
# tools/seed_keep5.sh C11 C18 ...  evaluates /tmp/seed6_<P>/<n> with the property's own quick check, keeps as R5-<P>-<n>
for p in "$@"; do for n in 1 2 3 4; do [ -f /tmp/seed6_$p/$n/patch.diff ] || continue; echo "=== $p/$n"; /verif/tools/seed_eval.py /tmp/seed6_$p/$n $p --keep-as R5-$p-$n 2>&1 | tail -5 | cut -c1-300; done; done
