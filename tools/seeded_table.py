#!/venv/bin/python
"""writes /verif/seeded/README.md: one row per stored seeded change (from meta.json / notes.md)"""
import glob, json, os, re
rows = []
brows = []
for d in sorted(glob.glob('/verif/seeded/*-*')):
    if not os.path.exists(d + '/meta.json'):
        continue
    m = json.load(open(d + '/meta.json'))
    name = os.path.basename(d)
    benign = m.get('kind') == 'behaviour-preserving' or name.startswith('B-')
    notes = open(d + '/notes.md').read() if os.path.exists(d + '/notes.md') else ''
    title = notes.strip().splitlines()[0].lstrip('# ').strip() if notes.strip() else ''
    title = re.sub(r'^(Seed|Change|C\d\d)[^-–]*[-–]\s*', '', title)
    files = sorted(set(f.replace('mosaik/', '') for f in re.findall(r'\+\+\+ b/(\S+)', open(d + '/patch.diff').read())))
    caught = []
    for p, ck in m.get('checks', {}).items():
        if ck.get('exit') == 1 and ck.get('violations', 0) > 0:
            caught.append(p + ' (' + ', '.join(k.replace('kind=', '') for k in ck.get('kinds', [])[:3]) + ')')
    tests_ok = '100%' in str(m.get('tests', '')) or '233 passed' in str(m.get('tests', ''))
    if benign:
        alarms = [p for p, ck in m.get('checks', {}).items() if ck.get('exit') != 0]
        verdict = ('silent on all %d checks' % len(m.get('checks', {}))) if not alarms else '**ALARM: ' + ', '.join(alarms) + '**'
        brows.append((name, ', '.join(files), title.replace('|', '/')[:110], 'green' if tests_ok else str(m.get('tests'))[:30], verdict))
        continue
    rows.append((name, ', '.join(files), title.replace('|', '/')[:110], 'green' if tests_ok else str(m.get('tests'))[:30],
                 f"{m.get('demo_changed_exit')}/{m.get('demo_unchanged_exit')}", '; '.join(caught) or '**not caught**'))
with open('/verif/seeded/README.md', 'w') as f:
    f.write('# Seeded changes\n\nEach directory: `patch.diff` (applies to /repo HEAD named in meta.json), `demo.py` '
            '(exit 1 on the changed tree, 0 on the unchanged one; `MOSAIK_TREE=<tree>`), `notes.md` (by the sub-agent '
            'that wrote the change, which saw nothing of /verif), `meta.json` (what was run here: suite result, demo '
            'exit codes, the quick check of the property against a scratch worktree with the change).\n\n'
            '| id | file(s) | change | suite | demo changed/unchanged | caught by quick check |\n|---|---|---|---|---|---|\n')
    for r in rows:
        f.write('| ' + ' | '.join(r) + ' |\n')
    n = len(rows); c = sum(1 for r in rows if 'not caught' not in r[5])
    f.write(f'\n{c} of {n} stored property-breaking changes are caught by the quick check of the property they were written '
            'against (ids: plain = round 1, R2- = round 2, R3- = the "interaction" round, R4- = the "mixed simulators, several entities, long runs" round, R5- = the "unusual but legal use" round and R6- = the short last round of the third session).\n')
    f.write('\n## Behaviour-preserving changes (must NOT be reported)\n\nRefactorings, renames of private names, equivalent '
            'micro-optimisations and reworded messages written by sub-agents; all 18 quick checks are run against each.\n\n'
            '| id | file(s) | change | suite | result |\n|---|---|---|---|---|\n')
    for r in brows:
        f.write('| ' + ' | '.join(r) + ' |\n')
    f.write(f"\n{sum(1 for r in brows if 'silent' in r[4])} of {len(brows)} behaviour-preserving changes leave all checks silent.\n")
print(len(rows), 'rows')
