#!/bin/sh
for p in "$@"; do for n in 1 2 3; do [ -f /tmp/seed4_$p/$n/patch.diff ] || continue; echo "=== $p/$n"; /verif/tools/seed_eval.py /tmp/seed4_$p/$n $p --keep-as R4-$p-$n 2>&1 | tail -4 | cut -c1-250; done; done
