#!/bin/sh
# tools/seed_keep.sh C05 C07 ...   full evaluation (tests + demo + own check) and store under /verif/seeded/<P>-<n>
for p in "$@"; do
  for n in 1 2 3; do
    [ -f /tmp/seed_$p/$n/patch.diff ] || continue
    echo "=== $p/$n"
    /verif/tools/seed_eval.py /tmp/seed_$p/$n $p --keep-as $p-$n 2>&1 | tail -4 | cut -c1-250
  done
done
