#!/bin/sh
# tools/seed_batch.sh C05 C07 ...   evaluates /tmp/seed_<P>/<n> for n=1..3 with the property's own check
for p in "$@"; do
  for n in 1 2 3; do
    [ -f /tmp/seed_$p/$n/patch.diff ] || continue
    echo "=== $p/$n"
    /verif/tools/seed_eval.py /tmp/seed_$p/$n $p 2>&1 | tail -4
  done
done
