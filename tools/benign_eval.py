#!/venv/bin/python
"""Behaviour-preserving changes must not raise any alarm:
   tools/benign_eval.py /tmp/benign_1/2 --keep-as B-1-2
applies the patch in a scratch worktree, runs the suite and ALL quick checks against it."""
import argparse, json, os, shutil, subprocess, sys, tempfile, time
PROPS = ['C%02d' % i for i in range(1, 19)]
def snapshot():
    """a private copy of the machinery, so that edits in /verif during a long evaluation cannot
    change the checks half-way, and the evaluation does not overwrite /verif/evidence"""
    snap = tempfile.mkdtemp(prefix='vs.', dir='/tmp')
    for n in ('mc', 'check', 'known_findings.json', 'findings', 'properties.jsonl', 'selftest'):
        src = os.path.join('/verif', n)
        (shutil.copytree if os.path.isdir(src) else shutil.copy)(src, os.path.join(snap, n))
    return snap

def sh(cmd, **kw): return subprocess.run(cmd, capture_output=True, text=True, **kw)
SNAP = None

def main():
    global SNAP
    SNAP = snapshot()
    ap = argparse.ArgumentParser(); ap.add_argument('seed'); ap.add_argument('--keep-as'); a = ap.parse_args()
    seed = os.path.abspath(a.seed)
    d = tempfile.mkdtemp(prefix='bv.', dir='/tmp'); os.rmdir(d)
    if sh(['git','-C','/repo','worktree','add','-q','--detach',d,'HEAD']).returncode: return 3
    meta = dict(seed=seed, kind='behaviour-preserving', repo_head=sh(['git','-C','/repo','rev-parse','--short','HEAD']).stdout.strip())
    try:
        r = sh(['git','-C',d,'apply',os.path.join(seed,'patch.diff')])
        if r.returncode: r = sh(['git','-C',d,'apply','-3',os.path.join(seed,'patch.diff')])
        if r.returncode: print('PATCH DOES NOT APPLY', r.stderr[:200]); return 3
        t = sh(['unshare','-n','sh','-c','ip link set lo up 2>/dev/null; cd %s && /venv/bin/python -m pytest -q -p no:cacheprovider --timeout=900 -q 2>&1 | tail -3' % d])
        meta['tests'] = t.stdout.strip().splitlines()[-1] if t.stdout.strip() else 'no output'
        print('TESTS:', meta['tests'])
        meta['checks'] = {}
        bad = []
        for p in PROPS:
            t0 = time.time()
            r = sh([os.path.join(SNAP, 'check'), p], env=dict(os.environ, VERIF_REPO=d))
            lines = r.stdout.strip().splitlines()
            viol = [l for l in lines if l.startswith('VIOLATION')]
            kinds = sorted({l.strip().split(' cls=')[0] for l in lines if l.strip().startswith('kind=')})
            meta['checks'][p] = dict(exit=r.returncode, violations=len(viol), kinds=kinds, wall=round(time.time()-t0,1))
            if r.returncode != 0:
                bad.append(p); print(f'ALARM {p}: exit={r.returncode} {kinds[:3]}'); 
                first = [l for l in lines if l.strip().startswith('kind=')][:1]
                if first: print('    ', first[0].strip()[:260])
                if r.returncode not in (0,1): print(r.stderr[-600:])
        print('RESULT:', 'silent on all 18 checks' if not bad else 'ALARMS: ' + ','.join(bad))
        if a.keep_as:
            dst = os.path.join('/verif/seeded', a.keep_as); os.makedirs(dst, exist_ok=True)
            for f in ('patch.diff','notes.md'):
                if os.path.exists(os.path.join(seed,f)): shutil.copy(os.path.join(seed,f), dst)
            json.dump(meta, open(os.path.join(dst,'meta.json'),'w'), indent=1)
        return 0
    finally:
        sh(['git','-C','/repo','worktree','remove','--force',d]); shutil.rmtree(d, ignore_errors=True); shutil.rmtree(SNAP, ignore_errors=True)
if __name__ == '__main__': sys.exit(main())
