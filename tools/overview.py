"""dev helper: summary of all violations of the quick (or thorough) scheduler jobs."""
import sys, collections, json
sys.path.insert(0, '/verif')
from mc import sched, env
tier = sys.argv[1] if len(sys.argv) > 1 else 'quick'
jobs = sched.quick_jobs(env.seed()) if tier == 'quick' else sched.thorough_jobs(env.seed())[0]
if len(sys.argv) > 2:
    jobs = [j for j in jobs if any(a in j['name'] for a in sys.argv[2:])]
res = sched.run_jobs(jobs)
agg = collections.OrderedDict()
tot = collections.Counter()
for j, r in zip(jobs, res):
    if r.get('error'):
        print('ERR', j['name'], j['cfg'], r['error'][:300]); continue
    tot['execs'] += r['execs']; tot['capped'] += r['capped']
    for v in r['viols']:
        k = (v['prop'], v['kind'], v.get('cls'))
        agg.setdefault(k, []).append((j['name'], sched._cfgs(j['cfg']), j['budget'], v['msg'][:230]))
    if r['nviews'] > 1:
        agg.setdefault(('C04', 'views', None), []).append((j['name'], sched._cfgs(j['cfg']), j['budget'], f"{r['nviews']} views"))
print(dict(tot))
for k, items in agg.items():
    names = collections.Counter(i[0] for i in items)
    print(k, len(items), dict(names))
    seen = set()
    for it in items:
        if it[0] in seen: continue
        seen.add(it[0])
        print('     ', it)
