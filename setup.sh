#!/bin/sh
# Offline setup: nothing to build; verify interpreter + tree under test, byte-compile, self-test.
cd "$(dirname "$0")" || exit 2
export PYTHONHASHSEED=0
/venv/bin/python -c "import sys; sys.path.insert(0,'.'); import mc.env as e; print('mosaik from', e.mosaik.__file__)" || exit 1
/venv/bin/python -m compileall -q mc >/dev/null 2>&1
mkdir -p .work evidence replays
if [ -f selftest/run.py ]; then /venv/bin/python selftest/run.py || exit 1; fi
echo setup ok
