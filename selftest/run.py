#!/venv/bin/python
"""Self-tests of the machinery (run by setup.sh, ~15 s):

 1. determinism: one recorded choice sequence gives byte-identical traces and state
    hashes twice in one process and once in a fresh process;
 2. replay: a recorded schedule replays identically, a corrupted one is a hard error;
 3. merge soundness: stateful exploration (with state merging) and stateless exploration
    (every schedule executed separately) reach the same sets of outcomes, per-simulator
    views and violation signatures;
 4. deadlock detection of the virtual loop;
 5. the harness can fail: with the repair of F1 undone in-process (ancestors' in-flight
    step ignored), the exploration of `anc_inflight` must report C05.
Exit status 0 = all passed.
"""
import asyncio
import hashlib
import json
import os
import subprocess
import sys

HERE = os.path.dirname(os.path.abspath(__file__))
sys.path.insert(0, os.path.dirname(HERE))
os.environ.setdefault("PYTHONHASHSEED", "0")

from mc import explorer, scenarios, statehash  # noqa: E402
from mc.vloop import VLoop, Deadlock  # noqa: E402

FAILED = []


def check(name, ok, detail=""):
    print(("ok   " if ok else "FAIL ") + name + (": " + detail if detail and not ok else ""))
    if not ok:
        FAILED.append(name)


def fingerprint(scen, cfg, choices):
    keys = []
    x = explorer.run_one(scen, cfg, choices, budget=2, hashing=True)
    # hashes are only taken past the prefix; take them all by replaying prefixes
    for i in range(0, len(choices) + 1, max(1, len(choices) // 4)):
        y = explorer.run_one(scen, cfg, choices[:i], budget=2, hashing=True)
        keys.append([p[3] for p in y.points if p[3] is not None][:3])
    blob = json.dumps([x.run.trace, list(x.result), keys], sort_keys=True, default=str)
    return hashlib.sha1(blob.encode()).hexdigest(), x


def a_schedule(scen, cfg):
    """a non-default schedule: always the last pending gate, one early delivery"""
    choices = []
    used = False
    while len(choices) < 14:
        x = explorer.run_one(scen, cfg, choices, budget=1, hashing=False)
        if len(x.points) <= len(choices):
            break
        p = x.points[len(choices)]
        if p[0] == "q":
            choices.append(("q", p[2] - 1))
        elif not used and p[2] > 0:
            choices.append(("e", 0))
            used = True
        else:
            choices.append(("e", None))
    x = explorer.run_one(scen, cfg, choices, budget=1, hashing=False)
    return [(p[0], p[1]) for p in x.points]


def main():
    if len(sys.argv) > 1 and sys.argv[1] == "--fingerprint":
        scen = scenarios.CATALOGUE[sys.argv[2]]
        choices = [tuple(c) for c in json.loads(sys.argv[3])]
        print(fingerprint(scen, dict(lazy=False, cache=True), choices)[0])
        return 0

    # 1 + 2 -----------------------------------------------------------------------------------
    for name in ("diamond_E", "weak_loop_out", "T_to_H_trigger_X"):
        scen = scenarios.CATALOGUE[name]
        cfg = dict(lazy=False, cache=True)
        choices = a_schedule(scen, cfg)
        f1, x1 = fingerprint(scen, cfg, choices)
        f2, x2 = fingerprint(scen, cfg, choices)
        r = subprocess.run([sys.executable, os.path.abspath(__file__), "--fingerprint", name,
                            json.dumps(choices)], capture_output=True, text=True,
                           env=dict(os.environ, PYTHONHASHSEED="0"))
        f3 = r.stdout.strip().splitlines()[-1] if r.stdout.strip() else "no output: " + r.stderr[-200:]
        check(f"determinism {name} ({len(choices)} choices)", f1 == f2 == f3, f"{f1} {f2} {f3}")
        names = [p[6] for p in x1.points]
        y = explorer.replay(scen, cfg, choices, names=names)
        check(f"replay {name}", y.run.trace == x1.run.trace and y.result == x1.result)
        bad = list(choices)
        qi = [i for i, c in enumerate(bad) if c[0] == "q"]
        bad[qi[len(qi) // 2]] = ("q", 7)
        try:
            explorer.replay(scen, cfg, bad)
            check(f"divergence detected {name}", False, "corrupted schedule replayed silently")
        except explorer.Divergence:
            check(f"divergence detected {name}", True)

    # 3 ---------------------------------------------------------------------------------------
    for name, cfg, b in (("anc_inflight", dict(lazy=True), 1), ("diamond_E", dict(lazy=False), 0),
                         ("weak_loop_in", dict(lazy=False), 0), ("E_chain3", dict(lazy=False), 1)):
        scen = scenarios.CATALOGUE[name]
        a = explorer.explore(scen, cfg, budget=b, max_exec=20000)
        s = explorer.explore(scen, cfg, budget=b, max_exec=20000, stateless=True)

        def summary(r):
            return (sorted(v for v, _ in r["views"]), sorted(r["outcomes"]),
                    sorted((v["prop"], v["kind"], str(v.get("cls"))) for v in r["viols"]))
        ok = summary(a) == summary(s) and not a["capped"] and not s["capped"]
        check(f"merge soundness {name} d={b} (stateful {a['execs']} vs stateless {s['execs']} executions)",
              ok, f"{summary(a)} vs {summary(s)}")

    # 4 ---------------------------------------------------------------------------------------
    loop = VLoop(lambda lp, live: live[0])
    asyncio.set_event_loop(loop)

    async def stuck():
        await loop.create_future()
    try:
        loop.run_until_complete(stuck())
        check("deadlock detection", False, "no Deadlock raised")
    except Deadlock:
        check("deadlock detection", True)
    finally:
        loop.allow_idle = True
        loop.close()
        asyncio.set_event_loop(None)

    # 5 ---------------------------------------------------------------------------------------
    import mosaik.scheduler as sch
    orig_adv, orig_max = sch.advance_progress, sch.get_max_advance

    def hide_current_step(fn):
        def wrapped(*a, **kw):
            sim = a[0] if fn is orig_adv else a[1]
            saved = {}
            for anc in getattr(sim, "triggering_ancestors", {}):
                saved[anc] = anc.current_step
                anc.current_step = None
            try:
                return fn(*a, **kw)
            finally:
                for anc, cs in saved.items():
                    anc.current_step = cs
        return wrapped
    sch.advance_progress = hide_current_step(orig_adv)
    sch.get_max_advance = hide_current_step(orig_max)
    try:
        r = explorer.explore(scenarios.CATALOGUE["anc_inflight"], dict(lazy=True), budget=0)
    finally:
        sch.advance_progress, sch.get_max_advance = orig_adv, orig_max
    props = {v["prop"] for v in r["viols"]}
    check("the harness can fail (F1 re-introduced in-process -> C05)", "C05" in props, str(props))

    print("selftest:", "FAILED " + ", ".join(FAILED) if FAILED else "all passed")
    return 1 if FAILED else 0


if __name__ == "__main__":
    sys.exit(main())
